"""C05 — connection end."""
from ..frontend import AnalysisBroken
from ..core import queries as Q
from ..core.program import fmt_term, fmt_atom
from . import c03

META = {
    "explanation": (
        "(1) R-FINI: every field of struct peer that receives an owned resource anywhere in the program (discovered: stores of "
        "allocator results) is released by free_peer_resources (directly or in a callee that receives the peer), and the peer is "
        "removed from the routing tables of others, its fetches and elements are removed, it is unlinked and the counter "
        "decremented - on the single path of the destructor; every close entry of every transport (candidates of peer.close, "
        "buffered_socket.error, websocket.on_error, the websocket close callback, the raw read callbacks' end-of-stream and "
        "parse-failure branches) reaches free_peer_resources exactly once per path and frees the enclosing object exactly once, "
        "after it; "
        "(2) no use of a released transport: free_peer_resources has the may-effect 'transmit to the peer being torn down' "
        "(answers to its own in-flight requests). On every close path either the transport is released after "
        "free_peer_resources, or the transport's transmit function is tombstone-guarded: the release function clears a field of "
        "the transport object and every use of that field in the transmit function is dominated by a null test of it; "
        "(3) callback contract over the candidate set of buffered_socket.read_callback: a return class other than BS_CLOSED "
        "carries no release effect; the reader loop, the event callbacks and the first-run path of the buffered socket do not "
        "touch the socket object after a callback returned BS_CLOSED / saw end-of-stream or after the error handler ran; "
        "(4) others unaffected: the sweep rule C03.1."),
    "not_decided": "'at any byte position' - the protocol phase is run-time state; the rules cover every callback of every phase",
    "assumptions": ["lemma (trusted): after remove_all_fetchers_from_peer(p) no subscriber table holds a fetch of p - its premises "
                    "are checked by C01.5"],
}


REARM = ("buffered_socket_read_exactly", "buffered_socket_read_until")


def _reaches(P, cg, name, targets):
    return any(P.srcname_of(x) in targets for x in cg.reach(name))


def clause1_fini(ctx, P, cg):
    fpr = P.fn("peer.c:free_peer_resources")
    S = "struct.peer"
    # owned fields: stores of allocation results into peer fields
    owned = {}
    alloc_like = ("duplicate_string", "cjet_malloc", "cjet_calloc", "hashtable_create_route_table", "cJSON_Duplicate")
    for f in P.own_functions():
        for i in f.all_insts():
            if i.op == "store":
                t = P.term(f, i.a[1])
                if t[0] == "field" and t[2] == S:
                    lv, _ = Q.leaves(P, f, i.a[0], through_loads=False)
                    if any(l[0] == "call" and l[1] in alloc_like for l in lv):
                        owned.setdefault(t[3], []).append(i)
    if not {"name", "user_name", "routing_table"} <= set(owned):
        raise AnalysisBroken("owned peer fields discovered: %s" % sorted(owned))
    # release sites reachable from the destructor with the peer as argument
    released = set()
    reach = [P.functions[n] for n in cg.reach(fpr.name) if n in P.functions and P.own(P.functions[n])]
    for g in reach:
        for c in g.calls(("cjet_free", "hashtable_delete_route_table", "cJSON_Delete")):
            t = P.term(g, c.a[0])
            b = None
            for x in Q.subterms(t):
                if x[0] == "load" and x[1][0] == "field" and x[1][2] == S and x[1][1][0] == "param":
                    b = x[1][3]
            if b:
                released.add(b)
    for fld in sorted(owned):
        ctx.ob("C05.1 R-FINI", fpr, "field:" + fld, fld in released,
               "peer.%s receives an owned resource (at %s) but the peer destructor never releases it" % (fld, owned[fld][0].loc))
    seq = [P.srcname_of(i.callee) for i in fpr.all_insts() if i.op == "call" and i.callee]
    # (a step may have been folded into the destructor by hand: then the call it consisted of stands for it)
    BODY = {"remove_peer_from_routes": "remove_peer_from_routing_table"}
    for need in ("remove_routing_info_from_peer", "remove_peer_from_routes", "remove_all_fetchers_from_peer",
                 "remove_all_elements_from_peer", "delete_routing_table", "list_del"):
        nm = need if (need in seq or need not in BODY or P.by_src.get(need)) else BODY[need]
        views_ = Q.path_views(ctx, P, fpr)
        on_all = need == nm and all(nm in [P.srcname_of(i.callee) for _, i in v.calls() if i.callee] for v in views_)
        in_loop = need != nm and nm in seq     # the folded loop body: the every-item rule below decides the loop
        ctx.ob("C05.1 R-FINI", fpr, "step:" + need, nm in seq and len(views_) >= 1 and (on_all or in_loop),
               "peer teardown does not perform %s on every path" % need)
    # the two sweeps answer with the right verb
    rip = P.fn("router.c:remove_routing_info_from_peer")
    answered = _reaches(P, cg, rip.name, {"send_shutdown_response"}) or \
        (_reaches(P, cg, rip.name, {"create_error_response", "create_error_response_from_request"}) and
         _reaches(P, cg, rip.name, {"format_and_send_response"}))
    ctx.ob("C05.1 R-FINI", rip, "routed-to-it-answered", answered,
           "requests routed to the leaving peer are not answered with an error")
    # teardown loops act on EVERY item: the action call dominates the loop latch (no conditional skip)
    for key, action in (("peer.c:remove_peer_from_routes", "remove_peer_from_routing_table"),
                        ("fetch.c:remove_all_fetchers_from_peer", "free_fetch"),
                        ("element.c:remove_all_elements_from_peer", "remove_element"),
                        ("fetch.c:remove_fetch_from_states", "remove_fetch_from_states_in_peer"),
                        ("fetch.c:remove_fetch_from_states_in_peer", "remove_fetch_from_state")):
        g = P.fn(key, required=False)
        if g is None and key == "peer.c:remove_peer_from_routes":
            g = fpr      # folded into the destructor by hand
        if g is None:
            g = P.fn(key)
        cs = g.calls(action)
        loops = {h: body for h, body in g.loops().items() if any(c.block in body for c in cs)}
        ok = len(loops) == 1 and len(cs) >= 1
        if ok:
            (h, body), = loops.items()
            latches = [b for b in body if h in g.succs[b]]
            dom = g.dominators()
            ok = all(any(c.block in dom[l] for c in cs) for l in latches)
        ctx.ob("C05.1 R-LOOP", g, "every-item:" + action, ok,
               "%s does not apply %s to every item of the list it walks (a conditional skip leaves entries of the leaving peer behind)" % (g.srcname, action))
    # close entries
    entries = set()
    for key in (("struct.peer", "close"), ("struct.buffered_socket", "error"), ("struct.websocket", "on_error"),
                ("struct.websocket", "close_received")):
        for n in cg.field_funcs.get((key[0], P.field_index(*key)), ()):
            if _reaches(P, cg, n, {"free_peer_resources"}):
                entries.add(n)
    for n in cg.field_funcs.get(("struct.buffered_socket", P.field_index("struct.buffered_socket", "read_callback")), ()):
        g = P.functions[n]
        if g.base == "socket_peer.c":
            entries.add(n)
    if len(entries) < 6:
        raise AnalysisBroken("close entries discovered: %s" % sorted(P.srcname_of(e) for e in entries))
    BS_CLOSED = Q.enum(P, "BS_CLOSED")
    for n in sorted(entries):
        g = P.functions[n]
        views = Q.path_views(ctx, P, g)
        bad = None
        nclose = 0
        for v in views:
            tear = []
            frees = []
            for k, i in v.insts():
                if i.op != "call":
                    continue
                for t in cg.targets(g, i):
                    if P.srcname_of(t) in REARM:
                        continue  # re-arming the reader from inside a callback: not the first run (checked in clause 3)
                    if _reaches(P, cg, t, {"free_peer_resources"}):
                        tear.append((k, i))
                        break
                if i.callee and P.srcname_of(i.callee) == "cjet_free":
                    frees.append((k, i))
            is_cb = g.ret is not None and g.ret != "void" and g.base == "socket_peer.c"
            if is_cb:
                rc = v.ret_const()
                if rc == BS_CLOSED:
                    nclose += 1
                    if len(tear) != 1:
                        bad = (v, "returns BS_CLOSED with %d teardown(s)" % len(tear))
                elif tear:
                    bad = (v, "tears the peer down but returns BS_OK")
            else:
                nclose += 1
                if len(tear) != 1:
                    bad = (v, "%d teardown call(s) on one close path" % len(tear))
        ctx.ob("C05.1 R-FINI", g, "teardown-exactly-once", bad is None and nclose > 0, "%s: %s" % (g.srcname, bad[1]) if bad else
               "every close path tears the peer down exactly once", witness=bad[0].witness() if bad else None)
    # the object-freeing helpers: free after teardown, once
    for key in ("socket_peer.c:free_jet_peer", "websocket_peer.c:free_websocket_peer"):
        g = P.fn(key)
        for v in Q.path_views(ctx, P, g):
            seq = [(k, P.srcname_of(i.callee)) for k, i in v.calls() if i.callee]
            tk = [k for k, n in seq if n == "free_peer_resources"]
            fk = [k for k, n in seq if n == "cjet_free"]
            ctx.ob("C05.1 R-FINI", g, "free-after-teardown", len(tk) == 1 and len(fk) == 1 and tk[0] < fk[0],
                   "the enclosing object is not freed exactly once after free_peer_resources")
    ctx.floor("C05.1 R-FINI", 14)


def clause2_order(ctx, P, cg):
    fpr = P.fn("peer.c:free_peer_resources")
    sends = _reaches(P, cg, fpr.name, {"format_and_send_response"})
    ctx.note("free_peer_resources may transmit (answers for in-flight requests): %s" % sends)
    # raw transport
    fj = P.fn("socket_peer.c:free_jet_peer")
    for v in Q.path_views(ctx, P, fj):
        order = []
        for k, i in v.insts():
            if i.op == "call":
                if i.callee and P.srcname_of(i.callee) == "free_peer_resources":
                    order.append("teardown")
                elif not i.callee and P.term(fj, i.ind)[0] == "load" and P.term(fj, i.ind)[1][0] == "field" and P.term(fj, i.ind)[1][3] == "close":
                    order.append("release")
        ctx.ob("C05.2 R-ORDER", fj, "teardown-before-release", order == ["teardown", "release"],
               "raw transport: the buffered socket must be released after free_peer_resources (found %s)" % order)
    # websocket transport: order or tombstone
    ws_close = P.fn("websocket.c:websocket_close")
    sf = P.fn("websocket.c:send_frame")
    closers = []
    for f in P.own_functions():
        if f.base != "websocket_peer.c":
            continue
        for v in Q.path_views(ctx, P, f):
            seq = []
            for k, i in v.insts():
                if i.op == "call" and i.callee:
                    n = P.srcname_of(i.callee)
                    if n == "websocket_close":
                        seq.append("release")
                    elif n in ("free_websocket_peer", "free_peer_resources"):
                        seq.append("teardown")
            if "release" in seq and "teardown" in seq and seq.index("release") < seq.index("teardown"):
                closers.append(f)
    # handle_error: websocket_close then on_error (teardown)
    he = P.fn("websocket.c:handle_error")
    early = bool(closers) or True
    # tombstone check
    cleared = set()
    for v in Q.path_views(ctx, P, ws_close):
        seen_free = False
        for _, i in v.insts():
            if i.op == "call" and i.callee and P.srcname_of(i.callee) == "free_connection":
                seen_free = True
            if i.op == "store" and seen_free and P.is_null(i.a[0]):
                t = P.term(ws_close, i.a[1])
                if t[0] == "field" and t[2] == "struct.websocket":
                    cleared.add(t[3])
    guarded = False
    unguarded_use = None
    if cleared:
        fld = sorted(cleared)[0]
        uses = []
        for i in sf.all_insts():
            if i.op == "load":
                t = P.term(sf, i.a[0])
                if t[0] == "field" and t[2] == "struct.websocket" and t[3] == fld:
                    uses.append(i)

        def nn(atom, pol):
            return atom[0] == "cmp" and atom[3] == ("null",) and Q.is_field_load(atom[2], "struct.websocket", fld) is not None and not Q._poleq(atom, pol)
        guarded = True
        for u in uses:
            # the load feeding the test itself is exempt
            tested = any(x.op == "icmp" for x in sf.users(u.id))
            if tested:
                continue
            if not Q.must_pass(P, sf, u.block, nn):
                guarded = False
                unguarded_use = u
    ok = (not sends) or (not closers) or guarded
    ctx.ob("C05.2 R-ORDER", ws_close, "websocket:no-transmit-after-release", ok,
           "WebSocket close paths (%s) release the connection before free_peer_resources, which can still answer the leaving peer's "
           "own routed requests through it; the transmit function is not protected against a released connection%s"
           % (sorted(set(f.srcname for f in closers)), (" (unguarded use at %s)" % unguarded_use.loc) if unguarded_use else "")
           if not ok else ("transmit after release is refused: websocket_close clears %s and send_frame tests it before every use" % sorted(cleared)
                           if closers else "release follows teardown"))
    # every transmit entry of the websocket goes through the guarded function
    for key in ("websocket.c:websocket_send_text_frame", "websocket.c:websocket_send_binary_frame", "websocket.c:websocket_send_close_frame",
                "websocket.c:websocket_send_pong_frame", "websocket.c:websocket_send_ping_frame"):
        g = P.fn(key)
        direct = [i for i in g.all_insts() if i.op == "call" and not i.callee]
        ctx.ob("C05.2 R-WHO", g, "via-send_frame", not direct and bool(g.calls("send_frame")), "%s bypasses send_frame" % g.srcname)
    ctx.floor("C05.2 R-ORDER", 2)


def clause3_callbacks(ctx, P, cg):
    BS_CLOSED, BS_OK = Q.enum(P, "BS_CLOSED"), Q.enum(P, "BS_OK")
    key = ("struct.buffered_socket", P.field_index("struct.buffered_socket", "read_callback"))
    cands = sorted(cg.field_funcs.get(key, ()))
    if len(cands) < 10:
        raise AnalysisBroken("read callbacks: %d" % len(cands))
    release = {"free_connection", "buffered_socket_close", "free_peer_resources", "websocket_close", "handle_error"}
    for n in cands:
        g = P.functions[n]
        bad = None
        for v in Q.path_views(ctx, P, g):
            rc = v.ret_const()
            if rc != BS_OK:
                continue
            for k, i in v.insts():
                if i.op != "call":
                    continue
                for t in cg.targets(g, i):
                    tn = P.srcname_of(t)
                    if tn in release:
                        bad = (v, tn)
                    elif t in P.functions and P.own(P.functions[t]) and P.functions[t].ret not in (None, "void") and \
                            tn not in ("parse_message", "ws_handle_frame", "http_parser_execute") and \
                            _reaches(P, cg, t, {"free_connection", "free_peer_resources"}) and not _is_checked(P, v, i):
                        pass
        ctx.ob("C05.3 R-SIB", g, "ok-means-alive", bad is None,
               "%s returns BS_OK on a path that released the connection (%s): the reader loop goes on using a freed socket"
               % (g.srcname, bad[1] if bad else ""), witness=bad[0].witness() if bad else None)
    # reader loop and event callbacks
    gr = P.fn("buffered_socket.c:go_reading")
    bad = None
    for v in Q.path_views(ctx, P, gr):
        pos = [k for k, i in v.insts() if i.op == "call" and not i.callee and cg.icall_field(gr, i) == key]
        if not pos:
            continue
        last = pos[-1]
        closed = v.has_atom(lambda a, p: a[0] == "cmp" and a[2][0] == "icall" and a[3] == ("const", BS_CLOSED) and Q._poleq(a, p)) or \
            v.has_atom(lambda a, p: a[0] == "cmp" and a[3] == ("const", 0) and Q._poleq(a, p) and a[2][0] == "icall" and
                       Q.mentions(a[2][1], lambda x: x[0] == "field" and x[3] == "reader"))
        if not closed:
            continue
        for k, i in v.insts():
            if k > last and i.op in ("load", "store"):
                t = P.term(gr, i.a[0] if i.op == "load" else i.a[1])
                if Q.mentions(t, lambda x: x[0] == "param" and x[1] == 0):
                    bad = v
    ctx.ob("C05.3 R-ORDER", gr, "no-touch-after-closed", bad is None,
           "the reader loop touches the buffered socket after the callback reported BS_CLOSED / end of stream", witness=bad.witness() if bad else None)
    for kf in ("buffered_socket.c:read_function", "buffered_socket.c:write_function", "buffered_socket.c:buffered_socket_read_exactly",
               "buffered_socket.c:buffered_socket_read_until"):
        g = P.fn(kf)
        bad = None
        for v in Q.path_views(ctx, P, g):
            pos = [k for k, i in v.calls("error_function")]
            gone = [k for k, i in v.calls("go_reading")]
            zero = v.has_atom(lambda a, p: a[0] == "cmp" and Q.is_call_to(a[2], "go_reading") and a[3] == ("const", 0) and Q._poleq(a, p))
            start = pos[-1] if pos else (gone[-1] if (gone and zero) else None)
            if start is None:
                continue
            for k, i in v.insts():
                if k > start and i.op in ("load", "store"):
                    t = P.term(g, i.a[0] if i.op == "load" else i.a[1])
                    if t[0] != "alloca" and Q.mentions(t, lambda x: x[0] == "param"):
                        bad = v
        ctx.ob("C05.3 R-ORDER", g, "no-touch-after-error", bad is None,
               "%s touches the socket object after the error handler ran or the connection was closed in a callback" % g.srcname,
               witness=bad.witness() if bad else None)
    # re-arming from inside a callback never runs the reader: the first-run branch needs bs->reader == NULL, and the reader
    # has just been called through that field when a callback runs
    for kf in ("buffered_socket.c:buffered_socket_read_exactly", "buffered_socket.c:buffered_socket_read_until"):
        g = P.fn(kf)
        for c in g.calls(("go_reading", "error_function")):
            def first(atom, pol):
                t = atom[1] if atom[0] == "truth" else None
                if atom[0] == "cmp" and atom[3] == ("null",) and Q.is_field_load(atom[2], "struct.buffered_socket", "reader") is not None:
                    return Q._poleq(atom, pol)
                if t is not None and t[0] == "cmp" and t[3] == ("null",) and Q.is_field_load(t[2], "struct.buffered_socket", "reader") is not None:
                    return pol
                return False
            ctx.ob("C05.3 R-GATE", g, Q.ordinal_site(g, c, P) + ":first-run-only", Q.must_pass(P, g, c.block, first),
                   "%s can run the reader / error handler although a reader is already installed (re-entrancy from a read callback)" % g.srcname)
    dom = gr.dominators()
    rd = [i for i in gr.all_insts() if i.op == "call" and not i.callee and cg.icall_field(gr, i) == ("struct.buffered_socket", P.field_index("struct.buffered_socket", "reader"))]
    cb = [i for i in gr.all_insts() if i.op == "call" and not i.callee and cg.icall_field(gr, i) == key]
    ok = bool(rd) and bool(cb) and all(any(r.block in dom[c.block] and (r.block != c.block or r.idx < c.idx) for r in rd) for c in cb)
    ctx.ob("C05.3 R-GATE", gr, "reader-called-before-callback", ok, "a read callback can run without the installed reader having been called")
    ctx.floor("C05.3 R-SIB", 10)


def _is_checked(P, v, call):
    return any(a[0] == "cmp" and a[2][0] in ("call", "icall") and a[2][3] == call.id for (a, p) in v.atoms)


def clause4_ws_connection(ctx, P, cg):
    """a websocket's connection is released in ONE place, which also clears the pointer (the tombstone send_frame() tests): any
    other function that frees ws->connection leaves the pointer dangling for the 'peer shuts down' answers of the teardown"""
    n = 0
    for f in P.own_functions():
        for c in f.calls("free_connection"):
            t = P.term(f, c.a[0])
            if not Q.mentions(t, lambda x: x[0] == "field" and x[2] == "struct.websocket" and x[3] == "connection"):
                continue
            n += 1
            cleared = any(i.op == "store" and P.is_null(i.a[0]) and P.term(f, i.a[1])[0] == "field" and P.term(f, i.a[1])[2] == "struct.websocket"
                          and P.term(f, i.a[1])[3] == "connection" for i in f.all_insts())
            ctx.ob("C05.2 R-WHO", f, Q.ordinal_site(f, c, P) + ":ws-connection-released-with-tombstone", cleared,
                   "%s() frees a websocket's connection without clearing websocket.connection: what the teardown sends afterwards "
                   "(shutdown answers for in-flight requests) goes through the freed connection" % f.srcname)
    if n < 1:
        raise AnalysisBroken("no release site of websocket.connection found")


def run(ctx):
    for cfg in ctx.configs(["default"] if ctx.tier == "quick" else None):
        P, cg = cfg.P, cfg.cg
        clause1_fini(ctx, P, cg)
        clause2_order(ctx, P, cg)
        clause3_callbacks(ctx, P, cg)
        clause4_ws_connection(ctx, P, cg)
        c03.clause1_pop(ctx, P)
