"""C14 — routed-request deadlines: value precedence, bounds, one outcome, no released object dispatched."""
from ..frontend import AnalysisBroken
from ..core import queries as Q
from ..core.program import fmt_term, fmt_atom
from . import c03

META = {
    "explanation": (
        "(1) dataflow/R-GATE: the timer of a routed request is started with get_timeout_in_nsec(request's timeout member, "
        "default = e->timeout_nsec); e->timeout_nsec is get_timeout_in_nsec(add's timeout member, default = configured "
        "constant); inside, a non-number and a value below the minimum return the error class before any conversion, and every "
        "caller treats 0 as refusal; the timer is created on CLOCK_MONOTONIC, armed relative and one-shot (zero interval); "
        "(2) exactly one outcome: sibling agreement of the completion functions (shared with C03.2); a reply whose entry is no "
        "longer in the table is discarded without any effect; the expiry handler does nothing when invoked as 'cancelled'; "
        "(3) no released object is dispatched: callbacks reachable from the event dispatcher can release an io_event other than "
        "the one being dispatched (a reply destroys the routing entry that embeds the timer's io_event), therefore the "
        "dispatcher must obtain each harvested entry from a location that the loop's remove() implementation invalidates, and "
        "test it before dispatch."),
    "not_decided": "'no earlier than the deadline' / 'as soon as the loop runs' (time); kernel timerfd behaviour",
    "assumptions": [],
    "trusted_base": ["CLOCK_MONOTONIC and timerfd semantics as documented"],
}


def _timeout_member(t):
    return Q.is_call_to(t, "cJSON_GetObjectItem") and t[2][1] == ("str", "timeout")


def clause1_value(ctx, P):
    sri = P.fn("router.c:setup_routing_information")
    soc = P.fn("element.c:set_or_call")
    ie = P.fn("element.c:init_element")
    g = P.fn("timer.c:get_timeout_in_nsec")
    # (a) request-level
    cs = sri.calls("get_timeout_in_nsec")
    ok = len(cs) == 1
    if ok:
        c = cs[0]
        tmo, dflt = P.term(sri, c.a[2]), P.term(sri, c.a[4])
        ok = tmo[0] == "param" and Q.is_field_load(dflt, "struct.element", "timeout_nsec") is not None
        tidx = tmo[1] if tmo[0] == "param" else None
    ctx.ob("C14.1 R-PAIR", sri, "deadline:request-else-element", ok,
           "routed deadline is not get_timeout_in_nsec(<request timeout>, default = e->timeout_nsec)")
    started = False
    for i in sri.all_insts():
        if i.op == "call" and not i.callee:
            t = P.term(sri, i.ind)
            if t[0] == "load" and t[1][0] == "field" and t[1][3] == "start":
                started = Q.is_call_to(P.term(sri, i.a[1]), "get_timeout_in_nsec")
                hd = P.term(sri, i.a[2])
                ctx.ob("C14.1 R-PAIR", sri, "timer:handler", hd == ("func", "request_timeout_handler") and
                       P.term(sri, i.a[3])[0] == "param", "timer is not started with the expiry handler and the routing entry as context")
    ctx.ob("C14.1 R-PAIR", sri, "timer:value", started, "the timer is not started with the computed deadline")
    for c in soc.calls("setup_routing_information"):
        t = P.term(soc, c.a[2])
        e = P.term(soc, c.a[0])
        ctx.ob("C14.1 R-PAIR", soc, "timeout-member", _timeout_member(t) and Q.is_call_to(e, "element_table_get"),
               "set/call does not pass params.timeout and the addressed element to the routing set-up")
    # (b) element-level
    cs = ie.calls("get_timeout_in_nsec")
    ok = len(cs) == 1
    if ok:
        c = cs[0]
        dflt = P.term(ie, c.a[4])
        ok = _timeout_member(P.term(ie, c.a[2])) and Q.is_call_to(dflt, "convert_seconds_to_nsec") and dflt[2][0][0] in ("fp", "load", "global")
        sts = [s for s in Q.field_stores(P, "struct.element", "timeout_nsec")]
        ok = ok and len(sts) == 1 and sts[0].fn is ie and Q.is_call_to(P.term(ie, sts[0].a[0]), "get_timeout_in_nsec")
    ctx.ob("C14.1 R-PAIR", ie, "element-default", ok,
           "element timeout is not get_timeout_in_nsec(add's timeout member, default = configured constant), stored once")
    # (c) refusal before conversion
    CJN = Q.macro(P, "timer.c", "cJSON_Number")
    for c in g.calls("convert_seconds_to_nsec"):
        def isnum(atom, pol):
            return atom[0] == "cmp" and atom[3] == ("const", CJN) and Q.is_field_load(atom[2], "struct.cJSON", "type") is not None and Q._poleq(atom, pol)

        def notsmall(atom, pol):
            if atom[0] != "cmp" or not atom[1].startswith("f"):
                return False
            lhs_v = Q.is_field_load(atom[2], "struct.cJSON", "valuedouble") is not None
            if lhs_v and atom[1] in ("folt", "fult") and not pol:
                return True
            if lhs_v and atom[1] in ("foge", "fuge") and pol:
                return True
            return False
        ctx.ob("C14.1 R-GATE", g, "convert:type", Q.must_pass(P, g, c.block, isnum), "timeout converted without the number-type test")
        ctx.ob("C14.1 R-GATE", g, "convert:minimum", Q.must_pass(P, g, c.block, notsmall), "timeout converted without the minimum test")
    # the minimum test separates exactly at one millisecond: it gives different answers for 0.001 (the double a JSON 0.001 / 1e-3
    # parses to) and for the next double below it
    import math
    ONE_MS = 0.001
    below = math.nextafter(ONE_MS, 0.0)
    CMP = {"olt": lambda a, b: a < b, "ult": lambda a, b: a < b, "ole": lambda a, b: a <= b, "ule": lambda a, b: a <= b,
           "ogt": lambda a, b: a > b, "ugt": lambda a, b: a > b, "oge": lambda a, b: a >= b, "uge": lambda a, b: a >= b}
    seps = []
    ks = []
    for i in g.all_insts():
        if i.op == "fcmp" and i.pred in CMP:
            l, r = P.term(g, i.a[0]), P.term(g, i.a[1])
            if r[0] == "fp" and r[1] < 1.0 and Q.is_field_load(l, "struct.cJSON", "valuedouble") is not None:
                ks.append(r[1])
                if CMP[i.pred](ONE_MS, r[1]) != CMP[i.pred](below, r[1]):
                    seps.append(i)
    ctx.ob("C14.1 R-BOUND", g, "minimum-is-exactly-one-millisecond", len(seps) >= 1,
           "the minimum test of get_timeout_in_nsec compares with %s: it does not separate 0.001 s (legal, the documented minimum) from "
           "the next smaller double - either exactly one millisecond is refused or shorter timeouts are accepted" %
           (", ".join(repr(k) for k in ks) or "no constant"))
    views = Q.path_views(ctx, P, g)
    bad = None
    for v in views:
        err = any(True for _ in v.calls("create_error_response_from_request"))
        if err and v.ret_const() != 0:
            bad = v
    ctx.ob("C14.1 R-ORDER", g, "refusal-returns-0", bad is None, "a refused timeout does not return the refusal value 0")
    # the default deadline is used only when the member is ABSENT: a present member of any non-number type is refused
    badd = None
    nd = 0
    for v in views:
        ro = v.ret_operand()
        if ro is not None and P.term(g, ro) == ("param", 4, g.params[4]["name"]):
            nd += 1
            absent = v.has_atom(lambda a, p: a[0] == "cmp" and a[2] == ("param", 2, g.params[2]["name"]) and a[3] == ("null",) and Q._poleq(a, p))
            if not absent:
                badd = v
    ctx.ob("C14.1 R-GATE", g, "default-only-when-absent", badd is None and nd > 0,
           "the default deadline is used although a timeout member is present (e.g. \"timeout\": null): a member that is not a number "
           "must be refused", witness=badd.witness() if badd else None)
    for c in P.callers_of(g):
        f = c.fn

        def refused(atom, pol, c=c):
            return atom[0] == "cmp" and atom[2][0] == "call" and atom[2][3] == c.id and atom[3] == ("const", 0)
        tested = any(refused(a, p) for v in Q.path_views(ctx, P, f) for (a, p) in v.atoms)
        ctx.ob("C14.1 R-GATE", f, Q.ordinal_site(f, c, P) + ":zero-is-refusal", tested, "%s ignores a refused timeout" % f.srcname)
    # (c2) the conversion keeps the full precision: nanoseconds = (uint64)(seconds * 1e9), no intermediate truncation
    conv_ns = P.fn("timer.c:convert_seconds_to_nsec")
    okc = False
    for v in Q.path_views(ctx, P, conv_ns):
        t = P.term(conv_ns, v.ret_operand())
        okc = t[0] == "op" and t[1] == "fptoui" and t[2][0][0] == "op" and t[2][0][1] == "fmul" and \
            set(t[2][0][2]) == {("param", 0, conv_ns.params[0]["name"]), ("fp", 1000000000.0)}
    ctx.ob("C14.1 R-PAIR", conv_ns, "nanoseconds-are-seconds-times-1e9", okc and len(Q.path_views(ctx, P, conv_ns)) == 1,
           "the deadline is not (uint64_t)(seconds * 1e9): an intermediate rounding (e.g. to whole milliseconds) lets the timeout "
           "error arrive before the requested deadline")
    # (d) clock and one-shot
    ti = P.fn("timer_linux.c:cjet_timer_init")
    mono = Q.macro(P, "timer_linux.c", "CLOCK_MONOTONIC")
    for c in ti.calls("timerfd_create"):
        ctx.ob("C14.1 R-PAIR", ti, "clock", P.const_int(c.a[0]) == mono, "deadline timer is not on CLOCK_MONOTONIC")
    ts = P.fn("timer_linux.c:timer_start")
    # the itimerspec handed to timerfd_settime has a zero interval: in whichever function of this unit fills it in
    zero = 0
    nonzero = []
    conv = ts
    for g in P.own_functions():
        if g.base != "timer_linux.c":
            continue
        for i in g.all_insts():
            if i.op == "store":
                t = P.term(g, i.a[1])
                if Q.mentions(t, lambda x: x[0] == "field" and x[3] == "it_interval"):
                    conv = g
                    if P.const_int(i.a[0]) == 0:
                        zero += 1
                    else:
                        nonzero.append(i)
            if i.op == "call" and i.callee and P.srcname_of(i.callee).startswith("llvm.memset") and P.const_int(i.a[1]) == 0:
                if Q.mentions(P.term(g, i.a[0]), lambda x: x[0] in ("alloca", "param")) and g.calls("timerfd_settime") or \
                        Q.mentions(P.term(g, i.a[0]), lambda x: x[0] == "field" and x[3] == "it_interval"):
                    pass
    ctx.ob("C14.1 R-PAIR", conv, "one-shot", zero >= 2 and not nonzero, "the timer is not one-shot (it_interval must be zero)")
    for c in ts.calls("timerfd_settime"):
        ctx.ob("C14.1 R-PAIR", ts, "relative", P.const_int(c.a[1]) == 0, "timer not armed relative to now")
    # the armed value is the whole deadline: it_value = (ns / 1e9, ns mod 1e9) computed at 64 bits all the way - no narrower
    # integer in between (4294967296 s and more are legal timeouts; cut to 32 bits they fire after the remainder)
    NS = 1000000000
    split = {}
    for g in P.own_functions():
        if g.base != "timer_linux.c":
            continue
        for i in g.all_insts():
            if i.op != "store":
                continue
            t = P.term(g, i.a[1])
            if t[0] == "field" and t[3] in ("tv_sec", "tv_nsec") and Q.mentions(t, lambda x: x[0] == "field" and x[3] == "it_value"):
                v = P.term(g, i.a[0])
                if v[0] == "const":
                    continue
                src = None
                if t[3] == "tv_sec":
                    okv = v[0] == "op" and v[1] == "udiv" and v[2][1] == ("const", NS)
                    src = v[2][0] if okv else None
                else:
                    okv = (v[0] == "op" and v[1] == "urem" and v[2][1] == ("const", NS)) or \
                          (v[0] == "op" and v[1] == "sub" and v[2][1] == ("op", "mul", (("op", "udiv", (v[2][0], ("const", NS))), ("const", NS))))
                    src = v[2][0] if okv else None
                # narrowing anywhere on the way from the deadline to the member
                narrow = None
                st = [i.a[0]]
                seen_ = set()
                while st:
                    o = st.pop()
                    if not isinstance(o, int) or o < g.nparams or o in seen_:
                        continue
                    seen_.add(o)
                    d = g.insts[o]
                    if d.op == "trunc":
                        narrow = d
                    if d.op in ("trunc", "zext", "sext", "udiv", "urem", "sub", "mul", "add"):
                        st.extend(d.a)
                split[t[3]] = (okv, src, narrow, g, i)
    oks = len(split) == 2 and all(x[0] and x[2] is None for x in split.values()) and split["tv_sec"][1] == split["tv_nsec"][1]
    why = ""
    if not oks:
        for k_, x in split.items():
            if x[2] is not None:
                why = "%s goes through a %s integer at %s" % (k_, x[2].ty, x[2].loc)
            elif not x[0]:
                why = why or "%s is not computed from the deadline by /, mod 1e9" % k_
    ctx.ob("C14.1 R-PAIR", ts, "armed-value-is-the-whole-deadline", oks,
           "the timer is not armed with (deadline / 1e9, deadline mod 1e9) at full width (%s): a long timeout fires early" % why)
    ctx.floor("C14.1 R-PAIR", 9)
    ctx.floor("C14.1 R-GATE", 4)


def clause2_outcome(ctx, P, cg):
    c03.clause2_siblings(ctx, P, cg)
    succ = Q.macro(P, "router.c", "HASHTABLE_SUCCESS")
    h = P.fn("router.c:handle_routing_response")
    rm = h.calls("hashtable_remove_route_table")
    bad = None
    n = 0
    for v in Q.path_views(ctx, P, h):
        st = [x for x in (c03._is_success_atom(P, a, p, rm[0].id, succ) for (a, p) in v.atoms) if x is not None] if rm else []
        if st and st[-1] is False:
            n += 1
            calls = [P.srcname_of(i.callee) for k, i in v.calls() if i.callee and k > [kk for kk, ii in v.insts() if ii.id == rm[0].id][0]]
            if calls or v.ret_const() != 0:
                bad = v
    ctx.ob("C14.2 R-ORDER", h, "late-reply-discarded", bad is None and n > 0,
           "a reply whose routing entry is gone (already timed out) has an effect or fails the replying connection",
           witness=bad.witness() if bad else None)
    th = P.fn("router.c:request_timeout_handler")
    bad = None
    n = 0
    for v in Q.path_views(ctx, P, th):
        canc = v.has_atom(lambda a, p: (a[0] == "truth" and Q.mentions(a[1], lambda x: x[0] == "param" and x[1] == 1) and p))
        if canc:
            n += 1
            if any(True for _ in v.calls()):
                bad = v
    ctx.ob("C14.2 R-ORDER", th, "cancelled-is-noop", bad is None and n > 0,
           "the expiry handler touches the entry when invoked as cancelled (the canceller completes it)",
           witness=bad.witness() if bad else None)


def clause2b_cancel_contract(ctx, P, cg):
    """the canceller completes the request itself (it answers with the reply, or with the shutdown error, and frees the entry): the
    expiry handler, when it is called from cancel(), is told so - the literal 'true' - whatever state the timer was in.  A cancel
    that reports 'not cancelled' for an already expired, not yet dispatched timer makes the handler answer and free the entry
    under the canceller's feet (second answer, use after free)"""
    tc = P.fn("timer_linux.c:timer_cancel")
    hk = ("struct.cjet_timer", P.field_index("struct.cjet_timer", "handler"))
    n = 0
    bad = None
    for i in tc.all_insts():
        if i.op == "call" and not i.callee and cg.icall_field(tc, i) == hk:
            n += 1
            if P.const_int(i.a[1]) not in (1, True):
                bad = i
    ctx.ob("C14.2 R-PAIR", tc, "cancel-reports-cancelled", bad is None and n >= 1,
           "timer_cancel() invokes the handler with %s instead of the constant true (%s): for an expired but not yet dispatched timer "
           "the expiry path runs inside cancel" % (fmt_term(P.term(tc, bad.a[1]))[:60] if bad else "?", bad.loc if bad else "no handler call found"))


def clause3_batch(ctx, P, cg):
    he = P.fn("eventloop_epoll.c:handle_events")
    # callbacks dispatched
    disp = []
    for i in he.all_insts():
        if i.op == "call" and not i.callee:
            t = P.term(he, i.ind)
            if t[0] == "load" and t[1][0] == "field" and t[1][2] == "struct.io_event":
                disp.append((i, t))
    if len(disp) < 3:
        raise AnalysisBroken("handle_events: dispatch sites not found")
    # can a dispatched callback release a foreign io_event?
    foreign = set()
    for (i, t) in disp:
        for name in cg.targets(he, i):
            g = P.functions.get(name)
            if g is None:
                continue
            for r in cg.reach(name):
                if P.srcname_of(r) == "cjet_timer_destroy" and g.srcname not in ("timer_read", "timer_error"):
                    foreign.add(g.srcname)
    ctx.note("callbacks that can release an io_event other than the dispatched one: %s" % sorted(foreign))
    rem_key = ("struct.eventloop", P.field_index("struct.eventloop", "remove"))
    rems = [P.functions[n] for n in cg.field_funcs.get(rem_key, ())]
    if not rems:
        raise AnalysisBroken("no eventloop.remove implementation")
    written = set()
    for r in rems:
        for n in cg.reach(r.name):
            g = P.functions.get(n)
            if g is None or not P.own(g):
                continue
            for i in g.all_insts():
                if i.op == "store":
                    dt = P.term(g, i.a[1])
                    for x in Q.subterms(dt):
                        if x[0] == "field":
                            written.add((x[2], x[3]))
    all_locs = set()
    all_ok = True
    for (i, t) in disp:
        recv = t[1][1]
        locs = {(x[2], x[3]) for x in Q.subterms(recv) if x[0] == "field"}
        lv, flds = Q.leaves(P, he, i.a[0])
        locs |= flds
        all_locs |= locs
        if not (locs & written):
            all_ok = False
    ok = (not foreign) or all_ok
    ctx.ob("C14.3 R-EFFECT", he, "batch-invalidation", ok,
           "the harvested entries dispatched here (%d sites) are read from %s, which remove() never invalidates (it writes only %s), "
           "while callbacks (%s) can release another entry of the same batch: a reply and the expiry of the same request becoming "
           "ready together dispatches a freed timer" % (len(disp), sorted(all_locs) or "the epoll batch", sorted(written), ", ".join(sorted(foreign)))
           if not ok else "dispatched entries come from a location remove() invalidates", detail={"dispatch_sites": len(disp)})
    # the invalidation window is exactly the undispatched tail of the batch: [i+1, num_events)
    from ..core import affine as A
    win = {}
    for i in he.all_insts():
        if i.op == "store":
            t = P.term(he, i.a[1])
            if t[0] == "field" and t[2] == "struct.eventloop_epoll" and t[3] in ("pending_events", "num_pending_events"):
                win[t[3]] = P.term(he, i.a[0])
    if "pending_events" in win and "num_pending_events" in win:
        ev_arr = ("param", 2, he.params[2]["name"])
        nev = ("param", 1, he.params[1]["name"])
        esz = P.structs["struct.epoll_event"]["size"]
        d_start = A.diff(P, win["pending_events"], ev_arr)
        d_cnt = A.norm(P, win["num_pending_events"])
        okw = False
        if d_start is not None and d_cnt is not None and len(d_start[0]) == 1:
            (ik, ic), = d_start[0].items()
            # start = (i + 1) * esz ; count = num_events - i - 1
            okw = ic == esz and d_start[1] == esz and d_cnt[0].get(ik) == -1 and d_cnt[0].get(nev) == 1 and d_cnt[1] == -1 and len(d_cnt[0]) == 2
        ctx.ob("C14.3 R-CURSOR", he, "pending-window-is-the-undispatched-tail", okw,
               "the window remove() scans for harvested entries is not exactly events[i+1 .. num_events): start %s, count %s - the last "
               "(or the current) entry of a batch is not invalidated when its object is released by an earlier callback" % (d_start, d_cnt))
    elif not foreign:
        pass
    else:
        ctx.ob("C14.3 R-CURSOR", he, "pending-window-is-the-undispatched-tail", all_ok, "no pending-window bookkeeping found")
    # the current-entry guard: after a read callback the write dispatch re-checks current_ev or the REMOVED verdict
    guards = 0
    for (i, t) in disp:
        if t[1][3] == "write_function":
            def cur(atom, pol):
                return atom[0] == "cmp" and atom[3] == ("null",) and \
                    Q.is_field_load(atom[2], "struct.eventloop_epoll", "current_ev") is not None and not Q._poleq(atom, pol)
            guards += 1
            ctx.ob("C14.3 R-GATE", he, Q.ordinal_site(he, i, P) + ":current-entry", Q.must_pass(P, he, i.block, cur),
                   "write dispatch after a read callback is not guarded by current_ev != NULL (the read callback may have removed the entry)")
    # ... and so does every READ through the entry after the read dispatch (e.g. fetching ev->write_function for the test)
    rd = [i for (i, t) in disp if t[1][3] == "read_function"]
    done_sites = set()
    for rdi in rd:
        hdrs = [h for h, body in he.loops().items() if rdi.block in body]
        after = he.reachable(rdi.block, removed_blocks=tuple(hdrs))   # the rest of THIS iteration
        for i in he.all_insts():
            if i.op != "load" or i.block not in after or i.block == rdi.block or i.id in done_sites:
                continue
            done_sites.add(i.id)
            t = P.term(he, i.a[0])
            if t[0] == "field" and t[2] == "struct.io_event" and t[3] != "read_function":
                def cur2(atom, pol):
                    return atom[0] == "cmp" and atom[3] == ("null",) and \
                        Q.is_field_load(atom[2], "struct.eventloop_epoll", "current_ev") is not None and not Q._poleq(atom, pol)
                ctx.ob("C14.3 R-GATE", he, Q.ordinal_site(he, i, P) + ":read-through-entry-after-read-dispatch", Q.must_pass(P, he, i.block, cur2),
                       "ev->%s is read after the read callback ran without the current_ev != NULL test first: the callback may have "
                       "released the entry (use after free)" % t[3])
    # remove() invalidates unconditionally: every path through it walks the pending window
    rmf = P.fn("eventloop_epoll.c:eventloop_epoll_remove")
    lp = rmf.loops()
    okr = len(lp) >= 1
    if okr:
        dom = rmf.dominators()
        exits = [b for b in range(rmf.nblocks) if rmf.term_inst(b).op == "ret"]
        okr = any(all(h in dom[b] for b in exits) for h in lp)
    ctx.ob("C14.3 R-LOOP", rmf, "invalidation-is-unconditional", okr,
           "eventloop_epoll_remove() can return without walking the harvested events (an early exit, e.g. when current_ev was already "
           "cleared by an earlier remove in the same callback): an entry released later in that callback is still dispatched")
    # ... and it forgets the entry in dispatch only when that very entry is removed: a read callback that removes ANOTHER event
    # (destroys the timer of a routed request it answers) must not switch off the write dispatch of its own entry - the
    # edge-triggered writability event is never repeated and the queued output stays where it is
    cur_stores = [i for i in rmf.all_insts() if i.op == "store" and P.is_null(i.a[0]) and P.term(rmf, i.a[1])[0] == "field" and
                  P.term(rmf, i.a[1])[3] == "current_ev"]
    evp = ("param", 1, rmf.params[1]["name"])

    def is_this(atom, pol):
        return atom[0] == "cmp" and Q._poleq(atom, pol) and \
            ((Q.is_field_load(atom[2], "struct.eventloop_epoll", "current_ev") is not None and atom[3] == evp) or
             (Q.is_field_load(atom[3], "struct.eventloop_epoll", "current_ev") is not None and atom[2] == evp))
    okc = bool(cur_stores) and all(Q.must_pass(P, rmf, i.block, is_this) for i in cur_stores)
    ctx.ob("C14.3 R-GATE", rmf, "current-entry-forgotten-only-when-it-is-the-one-removed", okc,
           "eventloop_epoll_remove() clears current_ev without the test current_ev == ev: removing some other event from inside a read "
           "callback switches off the write dispatch of the entry being served, and its edge-triggered writability is lost")
    # the batch is abandoned only to stop the loop: handle_events returns its own two constants, never a callback's verdict
    ABORT, CONT = Q.enum(P, "EL_ABORT_LOOP"), Q.enum(P, "EL_CONTINUE_LOOP")
    other = []
    for i in he.all_insts():
        if i.op == "ret" and i.a:
            lv, _ = Q.leaves(P, he, i.a[0], through_loads=False)
            for l in lv:
                if l not in (("const", ABORT), ("const", CONT)):
                    other.append(l)
    ctx.ob("C14.3 R-RET", he, "batch-left-only-to-stop-the-loop", not other,
           "handle_events() can return %s: leaving the batch for anything but EL_ABORT_LOOP drops the remaining harvested events, and "
           "with edge-triggered registration they are never reported again" % ", ".join(fmt_term(o) for o in other[:2]))
    for v in Q.path_views(ctx, P, he):
        pass
    ctx.floor("C14.3 R-EFFECT", 1)


def run(ctx):
    for cfg in ctx.configs(["default"] if ctx.tier == "quick" else None):
        P, cg = cfg.P, cfg.cg
        clause1_value(ctx, P)
        clause2_outcome(ctx, P, cg)
        clause2b_cancel_contract(ctx, P, cg)
        clause3_batch(ctx, P, cg)
