"""C07 — reclamation and descriptor hygiene: pairing rules."""
from ..frontend import AnalysisBroken
from ..core import queries as Q
from ..core import affine as A
from ..core.own import Own
from ..core.program import fmt_term, fmt_atom
from . import c03

META = {
    "explanation": (
        "Acquire/release pairing on every path of every own function (fault-free and faulty classes alike), with summaries so that "
        "ownership passes through helpers: (1) R-OWN per resource kind - heap blocks (cjet_malloc/calloc, duplicate_string, "
        "cJSON_Print*, table create), cJSON trees (creators, Duplicate, Parse, own response/message constructors discovered as "
        "'returns a fresh object'), descriptors (accept/socket/open/timerfd_create/epoll_create/mkstemp): an object acquired on a "
        "path ends the path released, returned, stored into a longer-lived object, linked, indexed or handed to a consuming callee "
        "(consumption of own callees is computed per return class); never released twice; (2) timers: every failure exit after a "
        "successful cjet_timer_init destroys the timer, and every completion function destroys it (C03.2); (3) owning-field "
        "overwrite: a fresh owned value is stored into a field of a non-fresh object only after the old value was released on that "
        "path; (4) R-SELF on every call through eventloop.add/remove/run/init/destroy: argument 0 is X->this_ptr of the same X; "
        "(5) cap gate: in the allocator the libc allocation is reachable only through the 'fits under the cap' edge, the counter "
        "grows by the stored size exactly once on the success path and shrinks by the stored size in cjet_free; (6) shutdown "
        "order: run_jet reaches destroy_all_peers after the loop's run() returned on every path; listeners are stopped on every "
        "later exit of the start-up ladders; the loop is destroyed after them."),
    "not_decided": "the numeric claims (accounted heap back at its baseline, under the cap at all times) as run-time quantities; "
                   "connections still in the HTTP phase at SIGTERM (they are on no list the shutdown sequence walks)",
    "assumptions": ["a callee whose effect on a pointer argument differs between paths of one return class is treated as taking the "
                    "object over (no leak is reported through it)"],
}

SKIP_FUNCS = {"main"}


def clause1_own(ctx, P, cg, own):
    leaks = {}
    attached = {}
    doubles = {}
    unchecked = {}
    uars = {}
    sites = {}
    for f in P.own_functions():
        if f.srcname in SKIP_FUNCS:
            continue
        prod = [i for i in f.all_insts() if i.op == "call" and own.producer_kind(f, i)]
        if not prod:
            # still walk functions that release parameters twice
            if not any(i.op == "call" and i.callee and P.srcname_of(i.callee) in ("cjet_free", "cJSON_Delete", "close", "socket_close", "free")
                       for i in f.all_insts()):
                continue
        for i in prod:
            sites[(f.key, Q.ordinal_site(f, i, P))] = (f, i)
        has_fail_class = any((v.ret_const() is not None and v.ret_const() < 0) or v.ret_is_null() for v in own.views(f)) and \
            any((v.ret_const() == 0 and f.ret == "i32") or (f.ret and f.ret.endswith("*") and not v.ret_is_null()) for v in own.views(f))
        for v in own.views(f):
            objs, ev, fnd = own.walk(f, v)
            failing = has_fail_class and ((v.ret_const() is not None and v.ret_const() < 0) or v.ret_is_null())
            for o in objs:
                if o["site"] is None:
                    continue
                k = (f.key, Q.ordinal_site(f, o["site"], P))
                if o["state"] == "owned" and k not in leaks:
                    leaks[k] = (v, o)
                # failure exit: an object acquired on this path and parked only in a field of the caller's object stays attached
                # although the function reports failure - it must be released here unless every caller's failure branch runs a
                # destructor that releases that field
                if failing and o["state"] == "escaped" and o["escapes"] and all(h == "param-field" for (h, _) in o["escapes"]) and k not in attached:
                    st = o["escapes"][0][1]
                    dt = P.term(f, st.a[1])
                    if dt[0] == "field" and dt[1][0] == "param" and not _callers_release_field(P, cg, own, f, dt[1][1], dt[2], dt[3]):
                        attached[k] = (v, o, dt)
            for x in fnd:
                k = (f.key, Q.ordinal_site(f, x.site, P))
                if x.kind == "double-release" and k not in doubles:
                    doubles[k] = x
                if x.kind == "unchecked-consume" and k not in unchecked:
                    unchecked[k] = x
                if x.kind == "use-after-release" and k not in uars:
                    uars[k] = x
    for k, (f, i) in sorted(sites.items()):
        bad = leaks.get(k)
        kind = own.producer_kind(f, i)
        ctx.ob("C07.1 R-OWN", f, "acquire:" + k[1], bad is None,
               "the %s acquired by %s at %s is neither released, returned, stored away nor handed over on this path (leak)"
               % (kind, P.srcname_of(i.callee), i.loc) if bad else "every path disposes of the %s" % kind,
               witness=bad[0].witness() if bad else None)
    for k, (v, o, dt) in sorted(attached.items()):
        f = v.f
        ctx.ob("C07.1 R-OWN", f, "failure-exit-keeps:" + k[1], False,
               "%s reports failure on this path but the %s acquired at %s stays attached to %s->%s and no caller's failure branch "
               "releases that field (leak on the unwinding path)" % (f.srcname, o["kind"], o["site"].loc, fmt_term(dt[1]), dt[3]), witness=v.witness())
    for k, x in sorted(doubles.items()):
        ctx.ob("C07.1 R-OWN", x.f, "double-release:" + k[1], False, x.what, witness=x.view.witness())
    for k, x in sorted(unchecked.items()):
        ctx.ob("C07.1 R-OWN", x.f, "unchecked-consume:" + k[1], False, x.what, witness=x.view.witness())
    for k, x in sorted(uars.items()):
        ctx.ob("C07.1 R-OWN", x.f, "use-after-release:" + k[1], False, x.what, witness=x.view.witness())
    ctx.count("acquire_sites", len(sites))
    if len(sites) < 60:
        raise AnalysisBroken("acquire sites found: %d (expected >= 60)" % len(sites))
    ctx.floor("C07.1 R-OWN", 60)


def _callers_release_field(P, cg, own, f, pidx, struct, field):
    """does every caller, on the branch where f failed, call something that frees <arg>-><field> ?"""
    callers = P.callers_of(f)
    if not callers:
        return True  # cannot judge (indirect): do not report
    for c in callers:
        g = c.fn
        ok_any = False
        found_fail_path = False
        for v in own.views(g):
            ks = [k for k, i in v.insts() if i.id == c.id]
            if not ks:
                continue
            failed = any(a[0] == "cmp" and a[2][0] == "call" and a[2][3] == c.id and
                         ((a[3][0] == "const" and (a[1] if p else Q.negate_pred(a[1])) in ("slt", "ne")) or (a[3] == ("null",) and Q._poleq(a, p)))
                         for (a, p) in v.atoms)
            if not failed:
                continue
            found_fail_path = True
            rel = False
            for k, i in v.insts():
                if k > ks[0] and i.op == "call" and i.callee:
                    h = P.functions.get(i.callee)
                    if h is None or not P.own(h):
                        continue
                    # the callee (transitively) frees load(param->field) of that struct
                    for n in cg.reach(h.name):
                        hh = P.functions.get(n)
                        if hh is None or not P.own(hh):
                            continue
                        for fr in hh.calls(("cjet_free", "cJSON_Delete")):
                            t = P.term(hh, fr.a[0])
                            if Q.is_field_load(t, struct, field) is not None:
                                rel = True
            if not rel:
                return False
        if not found_fail_path:
            return False
    return True


def clause2_timers(ctx, P, cg):
    n = 0
    for f in P.own_functions():
        inits = f.calls("cjet_timer_init")
        if not inits:
            continue
        for c in inits:
            n += 1
            key = P.term(f, c.a[0])
            bad = None
            npaths = 0
            for v in Q.path_views(ctx, P, f):
                ks = [k for k, i in v.insts() if i.id == c.id]
                if not ks:
                    continue
                ok_init = v.has_atom(lambda a, p: a[0] == "cmp" and a[2][0] == "call" and a[2][3] == c.id and a[3] == ("const", 0) and
                                     (a[1] if p else Q.negate_pred(a[1])) in ("sge", "eq"))
                if not ok_init:
                    continue
                rc = v.ret_const()
                if rc is None or rc >= 0:
                    continue
                npaths += 1
                destroyed = any(P.term(f, i.a[0]) == key for k, i in v.calls("cjet_timer_destroy") if k > ks[0])
                if not destroyed:
                    bad = v
            ctx.ob("C07.2 R-OWN", f, Q.ordinal_site(f, c, P), bad is None,
                   "a failure exit after a successful cjet_timer_init leaves the timer (descriptor + loop registration) behind"
                   if bad else "timer destroyed on all %d failure exit(s)" % npaths, witness=bad.witness() if bad else None)
    ti = P.fn("timer_linux.c:cjet_timer_init")
    bad = None
    for v in Q.path_views(ctx, P, ti):
        made = v.has_atom(lambda a, p: a[0] == "cmp" and Q.is_call_to(a[2], "timerfd_create") and a[3] == ("const", -1) and not Q._poleq(a, p))
        rc = v.ret_const()
        if made and rc is not None and rc < 0 and not any(True for _ in v.calls(("socket_close", "close"))):
            bad = v
    ctx.ob("C07.2 R-OWN", ti, "timerfd-closed-on-failure", bad is None, "cjet_timer_init fails after timerfd_create without closing the descriptor",
           witness=bad.witness() if bad else None)
    td = P.fn("timer_linux.c:cjet_timer_destroy")
    # on every path: removed from the loop (the indirect call), then closed - other calls (logging) do not matter
    badd = None
    names = []
    for v in Q.path_views(ctx, P, td):
        names = [("icall" if not i.callee else P.srcname_of(i.callee)) for _, i in v.calls()
                 if not i.callee or P.srcname_of(i.callee) in ("socket_close", "close")]
        if names != ["icall", "socket_close"] and names != ["icall", "close"]:
            badd = (v, names)
    ctx.ob("C07.2 R-OWN", td, "destroy-removes-then-closes", badd is None and bool(names),
           "cjet_timer_destroy must remove from the loop, then close, on every path (found %s)" % (badd[1] if badd else names),
           witness=badd[0].witness() if badd else None)
    if n < 1:
        raise AnalysisBroken("no cjet_timer_init call site")
    # the converse: in a function that initialises a timer, that timer is destroyed only on paths where the initialisation has
    # happened and succeeded (destroy closes the descriptor and unregisters it: on a never-initialised timer these are stray numbers)
    for f in P.own_functions():
        inits = f.calls("cjet_timer_init")
        if not inits:
            continue
        keys = {P.term(f, c.a[0]): c for c in inits}
        bad = None
        nd = 0
        for v in Q.path_views(ctx, P, f):
            done = set()
            for k, i in v.insts():
                if i.op != "call" or not i.callee:
                    continue
                nm = P.srcname_of(i.callee)
                if nm == "cjet_timer_init":
                    c = i
                    failed = v.has_atom(lambda a, p, c=c: a[0] == "cmp" and a[2][0] == "call" and a[2][3] == c.id and a[3] == ("const", 0) and
                                        (a[1] if p else Q.negate_pred(a[1])) in ("slt", "ne"))
                    if not failed:
                        done.add(P.term(f, i.a[0]))
                elif nm == "cjet_timer_destroy" and P.term(f, i.a[0]) in keys:
                    nd += 1
                    if P.term(f, i.a[0]) not in done:
                        bad = (v, i)
        ctx.ob("C07.2 R-TYPESTATE", f, "timer-destroyed-only-after-init", bad is None,
               "%s destroys the timer at %s on a path on which cjet_timer_init() for it has not (successfully) run: epoll_ctl(DEL) and "
               "close() are applied to whatever the uninitialised memory holds - a descriptor the request does not own" %
               (f.srcname, bad[1].loc if bad else ""), witness=bad[0].witness() if bad else None)
    c03.clause2_siblings(ctx, P, cg)


def clause13_freed_field_is_reassigned(ctx, P):
    """a setter that releases what a member points to gives the member a new value on EVERY path that follows (the new object, or
    NULL): in a function that both frees X->m and stores to X->m, no path leaves with the member still holding the freed pointer -
    the next reader (a log line naming the peer) or the destructor (a second free) would use it"""
    n = 0
    bad = None
    for f in P.own_functions():
        frees = []
        for c in f.calls(("cjet_free", "free", "cJSON_Delete")):
            t = P.term(f, c.a[0])
            if t[0] == "load" and t[1][0] == "field" and t[1][1][0] == "param":
                frees.append((c, t[1]))
        if not frees:
            continue
        for (c, fld) in frees:
            stores = [i for i in f.all_insts() if i.op == "store" and P.term(f, i.a[1]) == fld]
            if not stores:
                continue      # a destructor: the object itself goes away, or the caller clears
            n += 1
            for v in Q.path_views(ctx, P, f):
                pos = [k for k, i in v.insts() if i.id == c.id]
                if not pos:
                    continue
                rc = v.ret_const()
                if rc is not None and rc < 0:
                    continue      # a failing initialiser unwinds its members; its caller releases the object (C15.2)
                if not any(k > pos[0] and i.op == "store" and P.term(f, i.a[1]) == fld for k, i in v.insts()):
                    bad = bad or (f, c, fld, v)
    ctx.ob("C07.1 R-OWN", "own-code", "freed-member-is-reassigned", bad is None and n >= 1,
           ("%s() frees %s at %s and leaves on a path that does not give the member a new value: it keeps pointing at the freed block "
            "(read by the next log line for that object, freed again by its destructor)" %
            (bad[0].srcname, fmt_term(("load", bad[2])), bad[1].loc)) if bad else "%d setter(s) reassign the member after freeing it" % n,
           witness=bad[3].witness() if bad else None)


def clause14_torn_down_means_zero(ctx, P):
    """the first-run entries of the buffered socket report -1 only for 'could not be set up, the caller still owns everything' (the
    accept handlers then free the socket object and close the descriptor).  Once the error callback has run, everything is gone
    already: every path of buffered_socket_read_exactly() / buffered_socket_read_until() that calls the error function returns 0"""
    n = 0
    for key in ("buffered_socket.c:buffered_socket_read_exactly", "buffered_socket.c:buffered_socket_read_until"):
        f = P.fn(key)
        bad = None
        for v in Q.path_views(ctx, P, f):
            if any(True for _ in v.calls("error_function")):
                n += 1
                if v.ret_const() != 0:
                    bad = v
        ctx.ob("C07.4 R-RET", f, "after-the-error-callback-nothing-is-left-to-the-caller", bad is None,
               "%s() returns %s on a path on which the error callback has already released the connection: the accept handler treats a "
               "negative result as 'clean up yourself' and frees / closes a second time" % (f.srcname, bad.ret_const() if bad else "?"),
               witness=bad.witness() if bad else None)
    if n < 2:
        raise AnalysisBroken("first-run error paths of the buffered socket: %d" % n)


def clause15_first_read_is_checked(ctx, P, cg):
    """the first read_exactly()/read_until() of a connection registers it with the event loop and reports -1 when that fails (nothing
    has been torn down then, clause 14): whoever arms the first read of a new connection looks at the result - the HTTP side does
    (init_http_connection2 returns it), and so must the raw jet side.  A connection that was not registered is never read and never
    noticed to end: its peer, memory and descriptor stay for good"""
    keys = {("struct.buffered_reader", P.field_index("struct.buffered_reader", "read_exactly")),
            ("struct.buffered_reader", P.field_index("struct.buffered_reader", "read_until"))}
    n = 0
    for key in ("socket_peer.c:init_socket_peer", "http_connection.c:init_http_connection2"):
        f = P.fn(key)
        for i in f.all_insts():
            if i.op == "call" and not i.callee and cg.icall_field(f, i) in keys:
                n += 1
                used = bool(f.users(i.id))
                ctx.ob("C07.4 R-RET", f, Q.ordinal_site(f, i, P) + ":first-read-result-is-used", used,
                       "%s() ignores the result of the read that registers the new connection with the event loop (%s): when the "
                       "registration fails the connection stays behind - counted, linked, its descriptor open and never polled" % (f.srcname, i.loc))
    if n < 2:
        raise AnalysisBroken("first reads of new connections found: %d" % n)


def clause17_nothing_after_a_read_that_ran(ctx, P, cg):
    """read_exactly()/read_until() may run the callback at once, and the callback may release the object it was handed as context (a
    refused request frees the connection inside the first read).  The result 0 says nothing about that; only a negative result
    says 'nothing has run, the caller still owns everything'.  So after such a call, on every path that has not seen a negative
    result, the function does not touch the context object any more (no load, store or call through it)"""
    keys = {("struct.buffered_reader", P.field_index("struct.buffered_reader", "read_exactly")),
            ("struct.buffered_reader", P.field_index("struct.buffered_reader", "read_until"))}
    n = 0
    bad = None
    for f in P.own_functions():
        arms = [i for i in f.all_insts() if i.op == "call" and not i.callee and cg.icall_field(f, i) in keys and len(i.a) >= 4]
        if not arms:
            continue
        for v in Q.path_views(ctx, P, f):
            seq = list(v.insts())
            for k, c in seq:
                if c not in arms:
                    continue
                n += 1
                lv, _ = Q.leaves(P, f, c.a[-1], through_loads=False)
                roots = {l for l in lv if l[0] in ("param", "call")}
                if not roots:
                    continue
                neg = v.has_atom(lambda a, p: a[0] == "cmp" and Q.mentions(a[2], lambda x: x[0] in ("call", "icall") and x[3] == c.id) and
                                 a[3] == ("const", 0) and ((a[1] == "slt" and p) or (a[1] == "sge" and not p)))
                if neg:
                    continue
                for k2, j in seq:
                    if k2 <= k or bad is not None:
                        continue
                    ops = []
                    if j.op == "load":
                        ops = [j.a[0]]
                    elif j.op == "store":
                        ops = [j.a[1]]
                    elif j.op == "call":
                        ops = [a for a in j.a if isinstance(a, int)]
                    for o in ops:
                        try:
                            l2, _ = Q.leaves(P, f, o, through_loads=False)
                        except AnalysisBroken:
                            continue
                        if roots & set(l2):
                            bad = (f, c, j, v)
                            break
    ctx.ob("C07.1 R-OWN", P.fn("http_connection.c:init_http_connection2"), "nothing-touched-after-a-read-that-may-have-run", bad is None and n >= 10,
           ("%s() goes on using the object it handed to the reader as callback context (at %s) after the read at %s, on a path that has not "
            "seen a negative result: the callback may have run at once and released the object (a refused first request frees the "
            "connection inside the read)" % (bad[0].srcname, bad[2].loc, bad[1].loc)) if bad else "%d armed reads, nothing touched behind them" % n,
           witness=bad[3].witness() if bad else None)


def clause18_copied_children_are_attached(ctx, P):
    """cJSON_Duplicate() copies the children one by one and gives everything up with cJSON_Delete(newitem) when a copy fails: that
    releases exactly what hangs on newitem.  So each copied child is attached (stored into a child/next member) inside the loop
    iteration that made it - a copy kept in a local until after the loop is lost when a later copy fails"""
    f = P.fn("cJSON.c:cJSON_Duplicate")
    rec = [c for c in f.calls("cJSON_Duplicate")]
    if not rec:
        raise AnalysisBroken("cJSON_Duplicate: recursive copy of the children not found")
    c = rec[0]
    body = None
    for h, b in f.loops().items():
        if c.block in b:
            body = b
    if body is None:
        raise AnalysisBroken("cJSON_Duplicate: the copy of the children is not in a loop")
    bad = None
    n = 0
    for v in Q.path_views(ctx, P, f, loop_iters=1):
        seq = list(v.insts())
        ks = [k for k, i in seq if i.id == c.id]
        if not ks:
            continue
        failed = v.has_atom(lambda a, p: a[0] == "cmp" and Q.mentions(a[2], lambda x: x[0] == "call" and x[3] == c.id) and a[3] == ("null",) and Q._poleq(a, p)) or \
            v.has_atom(lambda a, p: a[0] == "truth" and Q.mentions(a[1], lambda x: x[0] == "call" and x[3] == c.id) and not p)
        if failed:
            continue
        n += 1
        attached = False
        for k, i in seq:
            if k > ks[0] and i.block in body and i.op == "store" and P.strip(f, i.a[0]) == c.id:
                d = P.term(f, i.a[1])
                if d[0] == "field" and d[2] == "struct.cJSON" and d[3] in ("child", "next"):
                    attached = True
            if k > ks[0] and i.block not in body:
                break
        if not attached:
            bad = v
    ctx.ob("C07.1 R-OWN", f, "copied-children-are-attached-at-once", bad is None and n >= 2,
           "cJSON_Duplicate() keeps a copied child outside the new item beyond the loop iteration that made it: when a later copy fails, "
           "cJSON_Delete(newitem) does not reach it - the heap accounted to the daemon stays above the baseline for good",
           witness=bad.witness() if bad else None)


def clause19_shutdown_order(ctx, P):
    """at shutdown the peers go first: a websocket peer owns its http connection and releases it (close frame included) when it is
    destroyed; the sweep over the list of http connections is for what has not become a peer.  The other way round the sweep frees
    the connections under the peers, which then send their close frame through freed memory and free it again"""
    rj = P.fn("linux_io.c:run_jet")
    bad = None
    n = 0
    for v in Q.path_views(ctx, P, rj):
        names = [P.srcname_of(i.callee) for _, i in v.calls() if i.callee]
        if "close_all_http_connections" in names:
            n += 1
            if "destroy_all_peers" not in names or names.index("destroy_all_peers") > names.index("close_all_http_connections"):
                bad = v
    ctx.ob("C07.6 R-ORDER", rj, "peers-are-destroyed-before-the-connection-sweep", bad is None and n >= 1,
           "run_jet() sweeps the list of http connections before it destroys the peers: connections that belong to websocket peers are "
           "freed first and used (close frame) and freed again by their peers", witness=bad.witness() if bad else None)


def clause20_constructors_take_over_on_every_path(ctx, P, cg, own):
    """the answer constructors of response.c take the JSON item they are given (the result of a request) over: once it is in the
    answer, or deleted when the answer cannot be built.  A constructor that disposes of such a parameter on one path does so on
    every path - the callers never release it themselves, so a path that just returns (a request without id is not answered)
    leaks the item out of the accounted heap, for any peer that cares to send such requests"""
    n = 0
    bad = None
    for g in P.own_functions():
        if g.base != "response.c":
            continue
        for k in range(g.nparams):
            if "struct.cJSON" not in g.params[k]["ty"] or P.srcname_of(g.name) == "add_item_to_object":
                continue
            pt = ("param", k, g.params[k]["name"])

            def disposes(v):
                ro = v.ret_operand()
                if ro is not None and P.term(g, v.resolve(ro)) == pt:
                    return True    # handed back to the caller
                if v.has_atom(lambda a, pl: a[0] == "cmp" and a[2] == pt and a[3] == ("null",) and Q._poleq(a, pl)):
                    return True    # nothing was handed in
                for _, i in v.calls():
                    if not i.callee:
                        continue
                    nm = P.srcname_of(i.callee)
                    for j, a in enumerate(i.a):
                        if P.term(g, a) != pt:
                            continue
                        if nm == "cJSON_Delete" or (nm in ("add_item_to_object", "cJSON_AddItemToObject", "cJSON_AddItemToArray") and j >= 1):
                            return True
                        h = P.functions.get(i.callee)
                        if h is not None and P.own(h) and own.param_fate(h, j, lambda vv: True, "all") in ("consumed", "released"):
                            return True
                return False
            views = list(Q.path_views(ctx, P, g))
            ds = [disposes(v) for v in views]
            if any(ds):
                n += 1
                if not all(ds) and bad is None:
                    bad = (g, g.params[k]["name"], views[ds.index(False)])
    ctx.ob("C07.1 R-OWN", P.fn("response.c:create_result_response_from_request"), "constructors-take-their-item-over-on-every-path",
           bad is None and n >= 3,
           ("%s() takes its parameter '%s' over on some paths (puts it into the answer or deletes it) and returns without touching it on "
            "another: no caller releases it, the item stays accounted for good" % (bad[0].srcname, bad[1])) if bad else
           "%d constructor parameters, each disposed of on every path" % n, witness=bad[2].witness() if bad else None)


def clause21_connection_unlinked_once(ctx, P):
    """free_connection() unlinks the http connection from the shutdown list unconditionally (list_del does not re-initialise the
    node): any other unlink of that node leaves it with stale neighbours, and the destructor's unlink then writes into whatever
    those neighbours have become.  So next_connection is unlinked only by the function that also frees the connection, or - as
    the undo of its own list_add on the same path - by the function that linked it"""
    n = 0
    bad = None
    for f in P.own_functions():
        for v in Q.path_views(ctx, P, f) if any(P.srcname_of(c.callee or "") == "list_del" for c in f.all_insts() if c.op == "call") else []:
            linked = set()
            pend = []
            for _, i in v.calls():
                nm = P.srcname_of(i.callee) if i.callee else ""
                if nm in ("list_add_tail", "list_add"):
                    linked.add(P.term(f, i.a[0]))
                elif nm == "list_del":
                    t = P.term(f, i.a[0])
                    if t[0] == "field" and t[3] == "next_connection":
                        n += 1
                        if t not in linked:
                            pend.append((i, t[1]))
                elif nm in ("cjet_free", "free") and pend:
                    obj = P.term(f, i.a[0])
                    pend = [(j, o) for (j, o) in pend if o != obj]
            if pend and bad is None:
                bad = (f, pend[0][0], v)
    ctx.ob("C07.7 R-TYPESTATE", P.fn("http_connection.c:free_connection"), "connection-unlinked-only-by-its-destructor", bad is None and n >= 2,
           ("%s() unlinks a connection from the shutdown list at %s without freeing it and without having linked it itself on that path: "
            "free_connection() unlinks it again later, with stale neighbours" % (bad[0].srcname, bad[1].loc)) if bad else
           "%d unlink(s) on paths, each by the destructor or as the undo of the function's own link" % n,
           witness=bad[2].witness() if bad else None)


def clause16_handed_over_items(ctx, P):
    """add_item_to_object() takes its item over whatever happens: attached on success, deleted on failure (checked here on the
    wrapper itself).  So no caller releases an item after it has passed it to the wrapper - not on the failure branch either, where
    a 'missing' cJSON_Delete looks like a leak fix and is a double free"""
    w = P.fn("response.c:add_item_to_object")
    item = ("param", 2, w.params[2]["name"])
    contract = True
    for v in Q.path_views(ctx, P, w):
        rc = v.ret_const()
        if rc is not None and rc < 0:
            contract = contract and any(P.term(w, i.a[0]) == item for _, i in v.calls("cJSON_Delete"))
    n = 0
    bad = None
    for f in P.own_functions():
        cs = f.calls("add_item_to_object")
        if not cs:
            continue
        for v in Q.path_views(ctx, P, f):
            handed = []
            for k, i in v.calls():
                nm = P.srcname_of(i.callee) if i.callee else ""
                if nm == "add_item_to_object" and len(i.a) > 2:
                    handed.append(P.term(f, v.resolve(i.a[2])))
                    n += 1
                elif nm in ("cJSON_Delete", "cjet_free") and handed:
                    t = P.term(f, v.resolve(i.a[0]))
                    if t in handed and t != ("null",):
                        bad = bad or (f, i, v)
    ctx.ob("C07.1 R-OWN", w, "items-handed-to-the-add-wrapper-are-not-released-again", contract and bad is None and n >= 20,
           ("%s() releases at %s an item it has already passed to add_item_to_object() on that path: the wrapper deletes the item itself "
            "when it cannot attach it - a double free" % (bad[0].srcname, bad[1].loc)) if bad else
           ("add_item_to_object() no longer deletes the item on its failure path" if not contract else "%d hand-overs, none released again" % n),
           witness=bad[2].witness() if bad else None)


def clause12_registered_for_shutdown(ctx, P, cg):
    """'a termination signal closes every connection, releases everything': the shutdown sequence (run_jet after the loop returned)
    can only release what some list knows.  Every handler of an accepted descriptor (the functions handed to accept_common())
    registers the object it builds for that descriptor in a list - on every path on which it keeps the descriptor, a function is
    called that links into a list through DIRECT calls only (registration that happens later, from a read callback once enough
    input has arrived, leaves the connection unknown to the shutdown until then)"""
    ac = P.fn("linux_io.c:accept_common")
    handlers = set()
    for c in P.callers_of(ac):
        t = P.term(c.fn, c.a[1])
        if t[0] == "func":
            handlers.add(t[1])
    if len(handlers) < 2:
        raise AnalysisBroken("accept handlers found: %s" % sorted(handlers))
    direct = {}

    def links(name, depth=0):
        if name in direct:
            return direct[name]
        direct[name] = False
        g = P.functions.get(name)
        r = False
        if g is not None and depth < 6:
            for i in g.all_insts():
                if i.op == "call" and i.callee:
                    if P.srcname_of(i.callee) in ("list_add_tail", "list_add") or links(i.callee, depth + 1):
                        r = True
                        break
        direct[name] = r
        return r
    for hn in sorted(handlers):
        h = P.functions[hn]
        bad = None
        n = 0
        for v in Q.path_views(ctx, P, h):
            if any(True for _ in v.calls(CLOSERS)):
                continue       # the descriptor is given up on this path
            n += 1
            if not any(i.callee and links(i.callee) for _, i in v.calls()):
                bad = v
        ctx.ob("C07.6 R-FINI", h, "accepted-connection-is-registered-for-shutdown", bad is None and n > 0,
               "%s() keeps an accepted descriptor on a path that registers nothing in any list (directly): until a later callback "
               "does, the connection and its memory are unknown to the shutdown sequence, which leaves them open / allocated" % h.srcname,
               witness=bad.witness() if bad else None)


CLOSERS = ("close", "socket_close")


def clause11_descriptors_closed_once(ctx, P, cg):
    """(a) close() is never retried: on Linux the descriptor is gone when close() returns, whatever it returns (EINTR included), so a
    close of the SAME descriptor inside a loop closes a number the daemon no longer owns (and that another connection may have got);
    (b) the listening sockets belong to the functions that created them: start_server() never closes the socket of the event it is
    given, and every caller closes it when start_server() fails"""
    n = 0
    bad = None
    for f in P.own_functions():
        loops = f.loops()
        for c in f.calls(CLOSERS):
            n += 1
            for h, body in loops.items():
                if c.block not in body:
                    continue
                t = P.term(f, c.a[0])
                varies = Q.mentions(t, lambda x: x[0] == "load" or (x[0] == "phi" and f.insts[x[1]].block in body) or
                                    (x[0] == "call" and x[3] in f.insts and f.insts[x[3]].block in body))
                if not varies and bad is None:
                    bad = (f, c)
    ctx.ob("C07.4 R-LOOP", "own-code", "close-is-not-retried", bad is None and n >= 8,
           ("%s() closes the same descriptor again inside a loop at %s: after the first close() the number is free (even when close "
            "reported EINTR) and may already belong to a new connection" % (bad[0].srcname, bad[1].loc)) if bad else
           "%d close sites, none repeats on the same descriptor" % n)
    ss = P.fn("linux_io.c:start_server")
    # does start_server close on its failure paths: never / always / sometimes
    fails = [v for v in Q.path_views(ctx, P, ss) if (v.ret_const() or 0) < 0]
    closing = [v for v in fails if any(True for _ in v.calls(CLOSERS))]
    callee = "never" if not closing else ("always" if len(closing) == len(fails) else "sometimes")
    sites = P.callers_of(ss)
    closes = {}
    for c in sites:
        f = c.fn
        res = set()
        for v in Q.path_views(ctx, P, f):
            if not v.has_atom(lambda a, p, c=c: a[0] == "cmp" and a[2][0] == "call" and a[2][3] == c.id and a[3] == ("const", 0) and
                              (a[1] if p else Q.negate_pred(a[1])) in ("slt", "ne")):
                continue
            pos = [k for k, i in v.insts() if i.id == c.id]
            res.add(any(k > pos[0] for k, i in v.calls(CLOSERS)))
        closes[c.id] = res
    ctx.ob("C07.4 R-WHO", ss, "listen-socket:callee-consistent", callee != "sometimes",
           "start_server() closes the listening socket on some of its failure exits and not on others")
    for c in sites:
        res = closes[c.id]
        want = {True} if callee == "never" else {False}
        ctx.ob("C07.4 R-WHO", c.fn, Q.ordinal_site(c.fn, c, P) + ":listen-socket-closed-exactly-once", res == want,
               ("after start_server() failed at %s, %s %s the listening socket while start_server() itself %s closes it on failure: the "
                "descriptor is %s" % (c.loc, c.fn.srcname, "closes" if True in res else "does not close", callee,
                                      "closed twice" if (True in res and callee != "never") else "left open")))
    if len(sites) < 5:
        raise AnalysisBroken("start_server call sites: %d" % len(sites))


def clause3_overwrite(ctx, P, cg, own):
    n = 0
    for f in P.own_functions():
        for v in own.views(f):
            objs, ev, fnd = own.walk(f, v)
            for o in objs:
                if o["site"] is None:
                    continue
                for (how, st) in o["escapes"]:
                    if how not in ("param-field", "memory") or st.op != "store":
                        continue
                    dt = P.term(f, st.a[1])
                    if dt[0] != "field":
                        continue
                    root = dt[1]
                    if root[0] != "param":
                        continue
                    n += 1
                    site = "%s<-%s" % (dt[3], Q.ordinal_site(f, o["site"], P))
                    # released before on this path?
                    pos = [k for k, i in v.insts() if i.id == st.id][0]
                    rel = False
                    for k, i in v.insts():
                        if k < pos and i.op == "call" and i.callee and P.srcname_of(i.callee) in ("cjet_free", "cJSON_Delete", "free"):
                            t = P.term(f, i.a[0])
                            if t == ("load", dt):
                                rel = True
                    if not rel and v.has_atom(lambda a, p: a[0] == "cmp" and a[2] == ("load", dt) and a[3] == ("null",) and Q._poleq(a, p)):
                        rel = True  # nothing to release on this path
                    if o["kind"] == "fd":
                        continue
                    if rel:
                        ctx.ob("C07.3 R-OWN", f, "overwrite:" + site, True, "old value released before the field is overwritten")
                        continue
                    # constructor idiom: every caller passes a fresh object (acquired in the caller) for this parameter
                    callers = P.callers_of(f)
                    fresh = bool(callers) and all(_fresh_arg(P, own, c, root[1]) for c in callers)
                    ctx.ob("C07.3 R-OWN", f, "overwrite:" + site, fresh,
                           "an owned value is stored into %s->%s of a live object without releasing the value it may already hold "
                           "(repeating the request leaks the previous one)" % (fmt_term(root), dt[3]) if not fresh else
                           "field of a freshly constructed object", witness=v.witness() if not fresh else None)
    if n < 5:
        raise AnalysisBroken("owned-field stores found: %d" % n)


def _fresh_arg(P, own, call, k, depth=0):
    """argument k of this call is a freshly acquired object (or a member of one), possibly through constructor chains"""
    f = call.fn
    a = P.strip(f, call.a[k])
    for _ in range(4):
        if isinstance(a, int) and a >= f.nparams and f.insts[a].op == "getelementptr":
            a = P.strip(f, f.insts[a].a[0])
    if isinstance(a, int) and a >= f.nparams:
        ins = f.insts[a]
        if ins.op == "call" and own.producer_kind(f, ins):
            return True
        if ins.op == "alloca":
            return True
        return False
    if isinstance(a, int) and a < f.nparams and depth < 4:
        cs = P.callers_of(f)
        return bool(cs) and all(_fresh_arg(P, own, c, a, depth + 1) for c in cs)
    return False


def clause4_self(ctx, P, cg):
    n = 0
    for f in P.own_functions():
        for i in f.all_insts():
            if i.op != "call" or i.callee:
                continue
            t = P.term(f, i.ind)
            if t[0] == "load" and t[1][0] == "field" and t[1][2] == "struct.eventloop":
                n += 1
                X = t[1][1]
                a0 = P.term(f, i.a[0])
                ok = a0 == ("load", ("field", X, "struct.eventloop", "this_ptr"))
                ctx.ob("C07.4 R-SELF", f, Q.ordinal_site(f, i, P), ok,
                       "%s->%s is called with %s instead of %s->this_ptr: the loop implementation reads a foreign object as its own state "
                       "(epoll_ctl on a descriptor it does not own)" % (fmt_term(X), t[1][3], fmt_term(a0), fmt_term(X)))
    if n < 8:
        raise AnalysisBroken("eventloop method call sites: %d" % n)
    ctx.floor("C07.4 R-SELF", 8)


def clause5_cap(ctx, P):
    for key, libc in (("alloc.c:cjet_malloc", "malloc"), ("alloc.c:cjet_calloc", "calloc")):
        f = P.fn(key)
        cs = f.calls(libc)
        if len(cs) != 1:
            raise AnalysisBroken("%s: libc allocation call" % key)
        c = cs[0]
        size_t = P.term(f, c.a[0] if libc == "malloc" else c.a[1])

        def fits(atom, pol):
            if atom[0] != "cmp" or atom[3][0] != "const":
                return False
            eff = atom[1] if pol else Q.negate_pred(atom[1])
            if eff not in ("ule", "ult"):
                return False
            d = A.diff(P, atom[2], size_t)
            return d is not None and d[1] == 0 and len(d[0]) == 1 and list(d[0].values()) == [1] and \
                list(d[0])[0][0] == "load" and list(d[0])[0][1][0] == "global"
        ctx.ob("C07.5 R-GATE", f, "cap-gate", Q.must_pass(P, f, c.block, fits),
               "%s reaches %s without the 'allocated + size <= cap' test on the size it allocates" % (f.srcname, libc))
        bad = None
        for v in Q.path_views(ctx, P, f):
            adds = [i for _, i in v.insts() if i.op == "store" and P.term(f, i.a[1])[0] == "global"]
            if v.ret_is_null():
                if adds:
                    bad = (v, "counter changed on a failing path")
            else:
                ok = len(adds) == 1
                if ok:
                    d = A.diff(P, P.term(f, adds[0].a[0]), ("load", P.term(f, adds[0].a[1])))
                    ok = d is not None and d == A.norm(P, size_t)
                if not ok:
                    bad = (v, "counter is not increased exactly once by the allocated size")
        ctx.ob("C07.5 R-ORDER", f, "account-once", bad is None, "%s: %s" % (f.srcname, bad[1] if bad else ""), witness=bad[0].witness() if bad else None)
    fr = P.fn("alloc.c:cjet_free")
    okd = False
    for i in fr.all_insts():
        if i.op == "store" and P.term(fr, i.a[1])[0] == "global":
            d = A.diff(P, P.term(fr, i.a[0]), ("load", P.term(fr, i.a[1])))
            okd = d is not None and d[1] == 0 and len(d[0]) == 1 and list(d[0].values()) == [-1] and \
                Q.mentions(list(d[0])[0], lambda x: x[0] == "field" and x[3] == "size")
    ctx.ob("C07.5 R-ORDER", fr, "unaccount-stored-size", okd and len(fr.calls("free")) == 1, "cjet_free does not subtract the stored block size and free the block")


def clause6_shutdown(ctx, P, cg):
    rj = P.fn("linux_io.c:run_jet")
    bad = None
    n = 0
    for v in Q.path_views(ctx, P, rj):
        runs = [k for k, i in v.insts() if i.op == "call" and not i.callee and cg.icall_field(rj, i) == ("struct.eventloop", P.field_index("struct.eventloop", "run"))]
        if not runs:
            continue
        n += 1
        d = [k for k, i in v.calls("destroy_all_peers")]
        if not d or d[0] < runs[0]:
            bad = v
    ctx.ob("C07.6 R-ORDER", rj, "peers-destroyed-after-run", bad is None and n > 0, "the event loop returns without all peers being closed")
    dap = P.fn("peer.c:destroy_all_peers")
    okc = any(i.op == "call" and not i.callee and cg.icall_field(dap, i) == ("struct.peer", P.field_index("struct.peer", "close")) for i in dap.all_insts()) and bool(dap.loops())
    ctx.ob("C07.6 R-LOOP", dap, "closes-every-peer", okc, "destroy_all_peers does not close every peer of the list")
    # start/stop ladders
    for key in ("linux_io.c:run_io_only_local", "linux_io.c:run_io_all_interfaces"):
        f = P.fn(key)
        bad = None
        for v in Q.path_views(ctx, P, f):
            started = []
            seq = []
            for k, i in v.calls(("start_server", "start_uds_server", "stop_server", "stop_uds_server", "close")):
                nme = P.srcname_of(i.callee)
                seq.append((nme, i))
            ok_start = set()
            for (a, p) in v.atoms:
                if a[0] == "cmp" and a[2][0] == "call" and a[2][1] in ("start_server", "start_uds_server") and a[3] == ("const", 0):
                    eff = a[1] if p else Q.negate_pred(a[1])
                    if eff in ("sge", "eq"):
                        ok_start.add(a[2][3])
            for (nme, i) in seq:
                if nme in ("start_server", "start_uds_server") and i.id in ok_start:
                    arg = P.term(f, i.a[0] if nme == "start_server" else i.a[1])
                    stopped = [j for (n2, j) in seq if n2 in ("stop_server", "stop_uds_server") and
                               (P.term(f, j.a[0]) == arg or Q.mentions(P.term(f, j.a[0]), lambda x: x == arg) or Q.mentions(arg, lambda x: x == P.term(f, j.a[0])))]
                    if len(stopped) != 1:
                        bad = (v, "%s started at %s is stopped %d times on this exit" % (nme, i.loc, len(stopped)))
        ctx.ob("C07.6 R-OWN", f, "listeners-stopped", bad is None, "%s: %s" % (f.srcname, bad[1] if bad else ""), witness=bad[0].witness() if bad else None)
    rio = P.fn("linux_io.c:run_io")
    bad = None
    for v in Q.path_views(ctx, P, rio):
        inits = v.has_atom(lambda a, p: a[0] == "cmp" and a[2][0] == "icall" and a[3] == ("const", 0) and (a[1] if p else Q.negate_pred(a[1])) == "sge")
        if inits:
            names = [(P.srcname_of(i.callee) if i.callee else ("icall:" + str((cg.icall_field(rio, i) or ("", ""))[1]))) for _, i in v.calls()]
            di = P.field_index("struct.eventloop", "destroy")
            if ("icall:%d" % di) not in names:
                bad = v
            else:
                last_run = max([k for k, nme in enumerate(names) if nme.startswith("run_io_")] or [-1])
                if names.index("icall:%d" % di) < last_run:
                    bad = v
    ctx.ob("C07.6 R-ORDER", rio, "loop-destroyed-last", bad is None, "the event loop is not destroyed after the servers have been stopped")


def clause7_linked(ctx, P, cg, own):
    """an object whose list node was linked on a path is not released on that path while still linked"""
    LINK, UNLINK = ("list_add_tail", "list_add"), ("list_del",)

    def node_of(f, o):
        t = P.term(f, o)
        if t[0] == "field" and t[2].startswith("struct.") and t[1][0] in ("param", "phi", "call", "load", "container_of"):
            return (t[1], t[2], t[3])
        return None
    # functions that free a parameter without unlinking it themselves
    releases = {}
    for g in P.own_functions():
        for k, prm in enumerate(g.params):
            pt = ("param", k, prm["name"])
            frees = any(P.term(g, c.a[0]) == pt for c in g.calls(("cjet_free", "free")))
            unl = any((node_of(g, c.a[0]) or (None,))[0] == pt for c in g.calls(UNLINK))
            if frees and not unl:
                releases[(g.name, k)] = True
    # functions that hand back an object they have linked (an allocator that registers what it allocates)
    producers = {}
    for g in P.own_functions():
        if not g.calls(LINK) or not g.ret.endswith("*"):
            continue
        for v in own.views(g):
            ro = v.ret_operand()
            if ro is None:
                continue
            rt = P.term(g, v.resolve(ro))
            for k, i in v.calls():
                if (P.srcname_of(i.callee) if i.callee else None) in LINK:
                    nd = node_of(g, i.a[0])
                    if nd and nd[0] == rt:
                        producers[g.name] = (nd[1], nd[2])
    nlink = 0
    for f in P.own_functions():
        if not f.calls(LINK) and not any(c.op == "call" and c.callee in producers for c in f.all_insts()):
            continue
        bad = None
        for v in own.views(f):
            linked = {}
            for k, i in v.calls():
                cn = P.srcname_of(i.callee) if i.callee else None
                if i.callee in producers:
                    t = P.term(f, i.id)
                    linked[t] = ((t,) + producers[i.callee], i)
                    continue
                if cn in LINK:
                    nd = node_of(f, i.a[0])
                    if nd:
                        linked[nd[0]] = (nd, i)
                        nlink += 1
                elif cn in UNLINK:
                    nd = node_of(f, i.a[0])
                    if nd:
                        linked.pop(nd[0], None)
                else:
                    for t in cg.targets(f, i):
                        for ak, a in enumerate(i.a):
                            if (t, ak) in releases or (cn in ("cjet_free", "free") and ak == 0):
                                at = P.term(f, a)
                                if at in linked:
                                    bad = (v, linked[at][0], i)
        ctx.ob("C07.7 R-TYPESTATE", f, "no-release-while-linked", bad is None,
               "%s is released by %s at %s while its node %s.%s is still linked into a list on this path: the list keeps a pointer to "
               "freed memory" % (fmt_term(bad[1][0]), P.srcname_of(bad[2].callee or "?"), bad[2].loc, bad[1][1], bad[1][2]) if bad else "",
               witness=bad[0].witness() if bad else None)
    nsites = sum(len(f.calls(LINK)) for f in P.own_functions())
    if nsites < 3 or nlink < 3:
        raise AnalysisBroken("list linking sites: %d static, %d on paths" % (nsites, nlink))


def clause8_fetch_unsubscribed(ctx, P, cg, own):
    """a fetch is released only after it has been taken out of the fetcher tables of ALL states it may have been added to"""
    ADD, REMOVE_ALL, FREE = "add_fetch_to_state", "remove_fetch_from_states", "free_fetch"
    for nm in (ADD, REMOVE_ALL, FREE):
        if len(P.by_src.get(nm, [])) != 1:
            raise AnalysisBroken("fetch.c: %s not found" % nm)
    n = 0
    for f in P.own_functions():
        if not f.calls(FREE):
            continue
        bad = None
        for v in own.views(f):
            calls = [(k, i) for k, i in v.calls()]
            for k, i in calls:
                if not i.callee or P.srcname_of(i.callee) != FREE:
                    continue
                n += 1
                T = P.term(f, i.a[0])
                sub_pos = None
                for k2, j in calls:
                    if k2 >= k or not j.callee:
                        continue
                    if any(P.term(f, a) == T for a in j.a) and \
                            (P.srcname_of(j.callee) == ADD or any(P.srcname_of(x) == ADD for x in cg.reach(j.callee))):
                        sub_pos = k2
                if sub_pos is None:
                    continue
                unsub = any(sub_pos < k3 < k and j.callee and P.srcname_of(j.callee) == REMOVE_ALL and P.term(f, j.a[0]) == T for k3, j in calls)
                if not unsub:
                    bad = (v, i)
        ctx.ob("C07.8 R-TYPESTATE", f, "fetch-freed-only-after-unsubscribing", bad is None,
               "free_fetch() at %s releases a fetch that may already sit in the fetcher tables of states (it was handed to a function "
               "that reaches add_fetch_to_state on this path) without remove_fetch_from_states() in between: the next change/remove of "
               "such a state notifies through freed memory" % (bad[1].loc if bad else ""), witness=bad[0].witness() if bad else None)
    if n < 4:
        raise AnalysisBroken("free_fetch call instances on paths: %d" % n)


def clause10_failure_exits_agree(ctx, P, cg, own):
    """sibling failure exits: in a function that fills memory reachable from its argument with fresh allocations (a loop that
    duplicates strings into pm->path_elements[i], say), every failure return that happens AFTER such a successful allocation
    releases what was stored - if one failure exit of the function does, all of them do"""
    from ..core.own import HEAP_PRODUCERS
    n = 0
    for f in P.own_functions():
        if not f.loops() or f.ret != "i32":
            continue

        def root(t):
            while isinstance(t, tuple) and t and t[0] in ("field", "index", "byteoff", "load"):
                t = t[1]
            return t
        stores = [i for i in f.all_insts() if i.op == "store" and isinstance(P.strip(f, i.a[0]), int) and P.strip(f, i.a[0]) >= f.nparams
                  and f.insts[P.strip(f, i.a[0])].op == "call" and f.insts[P.strip(f, i.a[0])].callee
                  and P.srcname_of(f.insts[P.strip(f, i.a[0])].callee) in HEAP_PRODUCERS and root(P.term(f, i.a[1]))[0] == "param"]
        if not stores:
            continue
        n += 1
        with_cleanup, without = [], []
        for v in own.views(f):
            rc = v.ret_const()
            if rc is None or rc >= 0:
                continue
            ok_store_pos = None
            for k, i in v.insts():
                if i in stores:
                    cid = P.strip(f, i.a[0])
                    dst = P.term(f, i.a[1])
                    if v.has_atom(lambda a, p, cid=cid, dst=dst: a[0] == "cmp" and a[3] == ("null",) and not Q._poleq(a, p) and
                                  ((a[2][0] == "call" and a[2][3] == cid) or a[2] == ("load", dst))):
                        ok_store_pos = k if ok_store_pos is None else ok_store_pos
            if ok_store_pos is None:
                continue
            prm = root(P.term(f, stores[0].a[1]))

            def releases(i):
                if i.op != "call":
                    return False
                for a in i.a:
                    ta = P.term(f, a)
                    if ta == prm or (ta[0] == "load" and root(ta) == prm):
                        nm = P.srcname_of(i.callee) if i.callee else ""
                        if nm in ("cjet_free", "free") or (i.callee in P.functions and P.own(P.functions[i.callee]) and
                                                          any(P.srcname_of(x) in ("cjet_free", "free") for x in cg.reach(i.callee))):
                            return True
                return False
            cleaned = any(k > ok_store_pos and releases(i) for k, i in v.calls())
            if not cleaned:
                # the clean-up written out as a loop (a helper spliced in): the path enters a loop whose body releases, even if
                # this particular path takes zero iterations or meets an empty slot
                started = False
                pos = 0
                for b in v.blocks:
                    if started and any(b == h and any(releases(i) for bb in body for i in f.blocks[bb]) for h, body in f.loops().items()):
                        cleaned = True
                    pos += sum(1 for i in f.blocks[b] if i.op != "phi")
                    if pos > ok_store_pos:
                        started = True
            (with_cleanup if cleaned else without).append(v)
        if with_cleanup or without:
            bad = without[0] if (with_cleanup and without) else None
            ctx.ob("C07.9 R-SIB", f, "failure-exits-release-what-was-stored", bad is None,
                   "%s has failure exits that release the allocations already stored through its argument, and one that does not: "
                   "that exit leaks them (the caller cannot tell how many were stored)" % f.srcname, witness=bad.witness() if bad else None)
    if n < 1:
        raise AnalysisBroken("no function that fills its argument with allocations in a loop found (anchor fill_path_elements)")


def clause9_hooks_first(ctx, P, cg):
    """cJSON allocates through cjet's accounted allocator only after init_parser() installed the hooks; whatever is parsed
    or created before that comes from plain malloc and is later released through cjet_free() (header mismatch: abort at
    shutdown, accounting below zero)"""
    m = P.fn("main.c:main")
    ips = m.calls("init_parser")
    if len(ips) != 1:
        raise AnalysisBroken("main: init_parser call sites: %d" % len(ips))
    ip = ips[0]
    early = []
    n = 0
    for c in m.all_insts():
        if c.op != "call" or c.id == ip.id:
            continue
        uses = False
        for t in cg.targets(m, c):
            names = {P.srcname_of(t)} | {P.srcname_of(x) for x in cg.reach(t)} if t in P.functions else {P.srcname_of(t)}
            if any(nm.startswith(("cJSON_Parse", "cJSON_Create", "cJSON_Duplicate", "cJSON_Print")) for nm in names):
                uses = True
        if not uses:
            continue
        n += 1
        after = m.dominates(ip.block, c.block) and (ip.block != c.block or ip.idx < c.idx)
        if not after:
            early.append(c)
    ctx.ob("C07.6 R-ORDER", m, "allocator-hooks-before-any-json", not early and n >= 2,
           "%s() at %s can build JSON objects before init_parser() has pointed cJSON at cjet_malloc/cjet_free: those objects are freed "
           "through cjet_free() later" % (P.srcname_of(early[0].callee or "?") if early else "?", early[0].loc if early else "?"))


def run(ctx):
    for cfg in ctx.configs(["default"] if ctx.tier == "quick" else None):
        P, cg = cfg.P, cfg.cg
        own = Own(ctx, P, cg)
        ctx.note("functions discovered as returning a fresh owned object: %s" % sorted(P.srcname_of(n) for n in own.own_producers))
        clause1_own(ctx, P, cg, own)
        clause20_constructors_take_over_on_every_path(ctx, P, cg, own)
        clause2_timers(ctx, P, cg)
        clause3_overwrite(ctx, P, cg, own)
        clause4_self(ctx, P, cg)
        clause5_cap(ctx, P)
        clause6_shutdown(ctx, P, cg)
        clause7_linked(ctx, P, cg, own)
        clause8_fetch_unsubscribed(ctx, P, cg, own)
        clause9_hooks_first(ctx, P, cg)
        clause10_failure_exits_agree(ctx, P, cg, own)
        clause11_descriptors_closed_once(ctx, P, cg)
        clause12_registered_for_shutdown(ctx, P, cg)
        clause13_freed_field_is_reassigned(ctx, P)
        clause14_torn_down_means_zero(ctx, P)
        clause15_first_read_is_checked(ctx, P, cg)
        clause17_nothing_after_a_read_that_ran(ctx, P, cg)
        clause18_copied_children_are_attached(ctx, P)
        clause19_shutdown_order(ctx, P)
        clause21_connection_unlinked_once(ctx, P)
        clause16_handed_over_items(ctx, P)
