"""C02 — JSON-RPC discipline."""
from ..frontend import AnalysisBroken
from ..core import queries as Q
from ..core.program import fmt_term, fmt_atom, CAST_OPS

META = {
    "technique": 'static analysis: repository-specific dataflow / guard-dominance / path rules over LLVM IR (CFG, SSA, resolved call graph, returned-constant summaries), plus the decoder tables shared with C04 (finite evaluation of parse_hex4, comparison constants of the escape decoder)',
    "explanation": (
        "(1) R-OWN on response slots: in every own function, on every path, a cJSON* response slot (local or out-parameter) "
        "that already holds a response object (assigned directly, or by a callee whose return class always assigns it) is not "
        "overwritten by another response object; the dispatcher hands the handler result to send_response exactly once per "
        "request path, send_response renders, sends at most once and deletes exactly once; R-WHO: the set of functions that "
        "transmit through peer.send_message and that call send_response is closed; "
        "(2) R-GATE: every call of an id-taking response constructor is dominated by <its id argument> != NULL; "
        "(3) incoming responses: on dispatcher paths with method == NULL and result/error present no response is sent; the "
        "relay in handle_routing_response addresses request->requesting_peer only; "
        "(4) R-SELF: every X->send_message(...)/X->close(...) passes X as receiver; the dispatcher uses one peer value for "
        "handler and send; "
        "(5) id source: the value stored under \"id\" derives from valuestring / valuedouble / a duplicate of the request id, "
        "never from the int-truncated field; "
        "(6) batch: the array branch is a counted loop 0..n-1 with a single dispatch of item i; "
        "(7) each response constructor attaches exactly one of result/error on every non-NULL return path."),
    "not_decided": "equality of JSON values beyond the id source; cJSON lookup semantics for duplicated members; that a response "
                   "object is actually produced when an allocation fails (C15)",
    "assumptions": ["response constructors may return NULL when the request has no id or memory is short; "
                    "an overwrite is reported when the first assignment is certain in the callee's return class"],
}

RESP_CTORS = ("create_error_response_from_request", "create_success_response_from_request",
              "create_result_response_from_request", "create_error_response", "create_result_response")


def _slots(P, f):
    """cJSON* response slots of f: out-params of type cJSON** and address-taken cJSON* locals"""
    out = []
    for p in f.params:
        if p["ty"] == "%struct.cJSON**":
            out.append(p["id"])
    for i in f.all_insts():
        if i.op == "alloca" and i.at == "%struct.cJSON*":
            out.append(i.id)
    return out


def clause1_overwrite(ctx, P, cg):
    n_slots = 0
    for f in P.own_functions():
        slots = _slots(P, f)
        if not slots:
            continue
        views = None
        for s in slots:
            # only slots that ever receive a response constructor result or are passed on
            relevant = False
            for u in f.users(s):
                if u.op == "store" and P.strip(f, u.a[1]) == s:
                    t = P.term(f, u.a[0])
                    if Q.is_call_to(t, RESP_CTORS):
                        relevant = True
                if u.op == "call":
                    relevant = True
            if not relevant:
                continue
            n_slots += 1
            if views is None:
                views = Q.path_views(ctx, P, f)
            viol = None
            for v in views:
                holder = None
                for k, i in v.insts():
                    if i.op == "store" and P.strip(f, i.a[1]) == s:
                        if P.is_null(i.a[0]):
                            holder = None
                            continue
                        t = P.term(f, v.resolve(i.a[0]))
                        if Q.is_call_to(t, RESP_CTORS):
                            if holder is not None:
                                viol = (v, holder, i)
                                break
                            holder = i
                        else:
                            holder = None if t == ("null",) else holder
                    elif i.op == "call":
                        for ak, a in enumerate(i.a):
                            if P.strip(f, a) == s:
                                cls, conds = Q.class_of_call(v, i)
                                for tname in cg.targets(f, i):
                                    h = P.functions.get(tname)
                                    if h is not None and Q.out_set(ctx, P, cg, h, ak, cls, conds) == "always":
                                        holder = i
                        # consumption of the loaded value
                        if i.callee and P.srcname_of(i.callee) in ("cJSON_Delete", "send_response"):
                            t = P.term(f, i.a[0])
                            if t[0] == "load" and P.strip(f, f.insts[P.strip(f, i.a[0])].a[0] if isinstance(P.strip(f, i.a[0]), int) and P.strip(f, i.a[0]) >= f.nparams else -1) == s:
                                holder = None
                if viol:
                    break
            site = "slot:" + (f.params[s]["name"] if s < f.nparams else (f.insts[s].name or "local"))
            if viol:
                v, first, second = viol
                ctx.ob("C02.1 R-OWN", f, site, False,
                       "a response object already produced at %s (%s) is overwritten by a second one at %s: two response objects "
                       "for one request, the first is lost" % (first.loc, P.srcname_of(first.callee) if first.op == "call" and first.callee else "store", second.loc),
                       witness=v.witness())
            else:
                ctx.ob("C02.1 R-OWN", f, site, True, "no path overwrites a live response object (%d paths)" % len(views))
    if n_slots < 8:
        raise AnalysisBroken("only %d response slots found" % n_slots)
    ctx.floor("C02.1 R-OWN", 8)


def clause1_dispatch(ctx, P, cg):
    d = P.fn("parse.c:parse_json_rpc")
    sr = P.fn("parse.c:send_response")
    views = Q.path_views(ctx, P, d)
    bad = None
    n_req = 0
    for v in views:
        sends = [i for _, i in v.calls("send_response")]
        has_handler = any(True for _ in v.calls("handle_method")) or True
        is_resp = any(True for _ in v.calls("handle_routing_response"))
        if is_resp:
            continue
        n_req += 1
        if len(sends) != 1:
            bad = (v, "request path with %d send_response calls" % len(sends))
            break
        # argument is the slot value assigned on this path
        s = sends[0]
        rt = P.term(d, v.resolve(s.a[0]))
        if rt[0] == "load" and rt[1][0] == "alloca":
            pos = [k for k, i in v.insts() if i.id == s.id][0]
            sv = Q.slot_value(v, rt[1][1], pos)
            if sv is None:
                bad = (v, "send_response is given an unassigned response slot")
                break
    ctx.ob("C02.1 R-ORDER", d, "send_response:once", bad is None and n_req >= 3,
           "dispatcher: %s" % (bad[1] if bad else "") if bad else "each of %d request paths sends exactly once" % n_req,
           witness=bad[0].witness() if bad else None)
    cs = P.callers_of(sr)
    ctx.ob("C02.1 R-WHO", sr, "send_response:callers", all(c.fn is d for c in cs) and len(cs) >= 1,
           "send_response is called outside the dispatcher: %s" % [c.loc for c in cs if c.fn is not d])
    # send_response itself
    views = Q.path_views(ctx, P, sr)
    bad = None
    for v in views:
        null_in = v.has_atom(lambda a, p: a[0] == "cmp" and a[2][0] == "param" and a[2][1] == 0 and a[3] == ("null",) and Q._poleq(a, p))
        dels = [i for _, i in v.calls("cJSON_Delete") if P.term(sr, i.a[0]) == ("param", 0, sr.params[0]["name"])]
        snd = [i for _, i in v.insts() if i.op == "call" and not i.callee]
        if null_in:
            if dels or snd:
                bad = (v, "NULL response is sent or deleted")
        else:
            if len(dels) != 1 or len(snd) > 1:
                bad = (v, "%d delete(s), %d send(s) of the response on one path" % (len(dels), len(snd)))
        if bad:
            break
    ctx.ob("C02.1 R-OWN", sr, "send-once-delete-once", bad is None, "send_response: %s" % (bad[1] if bad else "ok"),
           witness=bad[0].witness() if bad else None)
    # who transmits through peer.send_message
    allowed = {"parse.c:send_response", "router.c:format_and_send_response", "fetch.c:notify_fetching_peer",
               "element.c:set_or_call"}
    n = 0
    for f in P.own_functions():
        for i in f.all_insts():
            if i.op == "call" and not i.callee:
                t = P.term(f, i.ind)
                if t[0] == "load" and t[1][0] == "field" and t[1][2] == "struct.peer" and t[1][3] == "send_message":
                    n += 1
                    ctx.ob("C02.1 R-WHO", f, Q.ordinal_site(f, i, P), f.key in allowed,
                           "%s transmits through peer.send_message; the closed sender set is %s" % (f.key, sorted(allowed)))
                    # R-SELF
                    recv = t[1][1]
                    a0 = P.term(f, i.a[0])
                    ctx.ob("C02.4 R-SELF", f, Q.ordinal_site(f, i, P) + ":receiver", a0 == recv,
                           "X->send_message is called with a receiver other than X: %s vs %s" % (fmt_term(recv), fmt_term(a0)))
                if t[0] == "load" and t[1][0] == "field" and t[1][2] == "struct.peer" and t[1][3] == "close":
                    recv = t[1][1]
                    a0 = P.term(f, i.a[0])
                    ctx.ob("C02.4 R-SELF", f, Q.ordinal_site(f, i, P) + ":receiver", a0 == recv,
                           "X->close is called with a receiver other than X")
    if n < 4:
        raise AnalysisBroken("send_message call sites: found %d, expected >= 4" % n)
    # same peer for handler and send
    hm = d.calls("handle_method")
    ss = d.calls("send_response")
    okp = all(P.term(d, c.a[2]) == ("param", 1, d.params[1]["name"]) for c in hm) and \
        all(P.term(d, c.a[1]) == ("param", 1, d.params[1]["name"]) for c in ss) and hm and ss
    ctx.ob("C02.4 R-SELF", d, "same-peer", bool(okp), "dispatcher uses different peer values for the handler and for the response")
    hmf = P.fn("parse.c:handle_method")
    for c in hmf.calls():
        g = P.functions.get(c.callee) if c.callee else None
        if g is None or not P.own(g):
            continue
        peer_args = [k for k, p in enumerate(g.params) if p["ty"] == "%struct.peer*"]
        for k in peer_args:
            t = P.term(hmf, c.a[k])
            ctx.ob("C02.4 R-SELF", hmf, Q.ordinal_site(hmf, c, P) + ":peer", t[0] == "param" and t[1] == 2,
                   "handler %s is invoked for a peer other than the requester" % g.srcname)
    ctx.floor("C02.4 R-SELF", 15)


def clause2_noid(ctx, P):
    n = 0
    for c in Q.call_sites(P, ("create_error_response", "create_result_response")):
        f = c.fn
        n += 1
        id_t = P.term(f, c.a[1])

        def nonnull(atom, pol):
            return atom[0] == "cmp" and atom[2] == id_t and atom[3] == ("null",) and not Q._poleq(atom, pol)
        ok = Q.must_pass(P, f, c.block, nonnull)
        w = None
        if not ok:
            pth = Q.witness_to(P, f, c.block, drop=nonnull)
            w = Q.fmt_witness(P, f, pth) if pth else None
        ctx.ob("C02.2 R-GATE", f, Q.ordinal_site(f, c, P), ok,
               "an id-taking response constructor is reachable without its id argument (%s) having been tested != NULL: a "
               "notification would be answered (or NULL dereferenced)" % fmt_term(id_t) if not ok else "id != NULL dominates",
               witness=w)
        # provenance of the id: request's "id" member or the routing entry's origin_request_id
        good = (Q.is_call_to(id_t, "cJSON_GetObjectItem") and id_t[2][1] == ("str", "id")) or \
            Q.is_field_load(id_t, "struct.routing_request", "origin_request_id") is not None or \
            (id_t[0] == "param")
        ctx.ob("C02.2 R-PAIR", f, Q.ordinal_site(f, c, P) + ":id-source", good,
               "response id is taken from %s, expected the request's id member or the routing entry's origin id" % fmt_term(id_t))
    ctx.floor("C02.2 R-GATE", 5)
    # the *_from_request constructors take the id from the object they are given: that object is the request the calling function
    # was handed (a parameter), never a message the function built itself (a routed message carries the ROUTED id)
    nfr = 0
    badr = None
    for c in Q.call_sites(P, ("create_error_response_from_request", "create_success_response_from_request", "create_result_response_from_request")):
        f = c.fn
        if f.srcname.endswith("_from_request"):
            continue
        nfr += 1
        rt = P.term(f, c.a[1])
        if rt[0] != "param" and badr is None:
            badr = (f, c, rt)
    ctx.ob("C02.2 R-PAIR", "own-code", "from-request-constructors-get-the-request", badr is None and nfr >= 60,
           ("%s() builds an answer from %s at %s instead of from the request it was handed: the answer carries another id than the "
            "request (the routed id, say)" % (badr[0].srcname, fmt_term(badr[2])[:60], badr[1].loc)) if badr else
           "%d answers built from the handler's own request parameter" % nfr)
    # param-id helper callers must pass the origin id
    ssr = P.fn("router.c:send_shutdown_response", required=False)
    if ssr is not None:
        for c in P.callers_of(ssr):
            t = P.term(c.fn, c.a[1])
            ctx.ob("C02.2 R-PAIR", c.fn, Q.ordinal_site(c.fn, c, P) + ":id-source",
                   Q.is_field_load(t, "struct.routing_request", "origin_request_id") is not None,
                   "shutdown answer built with an id other than the entry's origin id")


def clause3_responses(ctx, P):
    d = P.fn("parse.c:parse_json_rpc")
    views = Q.path_views(ctx, P, d)
    n = 0
    bad = None
    for v in views:
        def member_present(key):
            return v.has_atom(lambda a, p: a[0] == "cmp" and Q.is_call_to(a[2], "cJSON_GetObjectItem") and
                              a[2][2][1] == ("str", key) and a[3] == ("null",) and not Q._poleq(a, p))

        def member_absent(key):
            return v.has_atom(lambda a, p: a[0] == "cmp" and Q.is_call_to(a[2], "cJSON_GetObjectItem") and
                              a[2][2][1] == ("str", key) and a[3] == ("null",) and Q._poleq(a, p))
        if member_absent("method") and (member_present("result") or member_present("error")):
            n += 1
            if any(True for _ in v.calls(("send_response",) + RESP_CTORS)):
                bad = v
    ctx.ob("C02.3 R-GATE", d, "incoming-response:no-answer", bad is None and n >= 2,
           "an incoming response object (no method, result/error present) reaches send_response or a response constructor"
           if bad else "%d response-handling path(s) send nothing" % n, witness=bad.witness() if bad else None)
    # an answer with a "result" member IS a result ('exactly one of result or error' is what cjet hands on): the error member is
    # only looked at when there is no result - {"result": R, "error": null}, the JSON-RPC 1.0 shape of success, relays R
    bado = None
    nerr = 0
    for v in views:
        for _, c in v.calls("handle_routing_response"):
            if Q.arg_literal(P, c, 2) == "error":
                nerr += 1
                absent = v.has_atom(lambda a, p: a[0] == "cmp" and Q.is_call_to(a[2], "cJSON_GetObjectItem") and
                                    a[2][2][1] == ("str", "result") and a[3] == ("null",) and Q._poleq(a, p))
                if not absent:
                    bado = v
    ctx.ob("C02.3 R-ORDER", d, "error-member-only-without-result", bado is None and nerr >= 1,
           "parse_json_rpc relays the \"error\" member of an answer on a path that has not found the \"result\" member absent: an owner "
           "answering {\"result\": R, \"error\": null} has its result dropped and the caller gets error null",
           witness=bado.witness() if bado else None)
    h = P.fn("router.c:handle_routing_response")
    for c in h.calls(("format_and_send_response",)):
        t = P.term(h, c.a[0])
        ok = Q.is_field_load(t, "struct.routing_request", "requesting_peer") is not None
        ctx.ob("C02.3 R-SELF", h, Q.ordinal_site(h, c, P), ok,
               "relayed answer is addressed to %s, expected request->requesting_peer" % fmt_term(t))
    for i in h.all_insts():
        if i.op == "call" and not i.callee:
            t = P.term(h, i.ind)
            if t[0] == "load" and t[1][0] == "field" and t[1][3] == "send_message":
                ctx.ob("C02.3 R-SELF", h, Q.ordinal_site(h, i, P), False, "reply handler transmits directly")
    ctx.floor("C02.3 R-SELF", 1)


def clause5b_number_rendering(ctx, P):
    """numbers leave the daemon as they came in (ids in answers, values in notifications and relayed payloads): the printer of the
    bundled cJSON keeps a shorter rendering of a double only when that rendering READS BACK TO THE SAME double - the path that
    skips the full-precision sprintf carries an exact floating-point equality between the value read back and the value, not the
    verdict of a tolerance function (relative DBL_EPSILON lets 9007199254740991 through as 9.00719925474099e+15 and
    0.30000000000000004 as 0.3)"""
    f = P.fn("cJSON.c:print_number")
    full = [c for c in f.all_insts() if c.op == "call" and c.callee and P.srcname_of(c.callee) in ("sprintf", "snprintf") and
            any(P.term(f, a) == ("str", "%1.17g") for a in c.a)]
    short = [c for c in f.all_insts() if c.op == "call" and c.callee and P.srcname_of(c.callee) in ("sprintf", "snprintf") and
             any(P.term(f, a)[0] == "str" and P.term(f, a)[1].startswith("%1.1") and P.term(f, a)[1] != "%1.17g" for a in c.a)]
    if not full or not short:
        raise AnalysisBroken("print_number: the short / full precision renderings were not found")
    d = ("load", ("field", ("param", 0, f.params[0]["name"]), "struct.cJSON", "valuedouble"))
    bad = None
    n = 0
    for v in Q.path_views(ctx, P, f, loop_iters=1):
        ids = [i.id for _, i in v.insts()]
        if short[0].id not in ids or any(c.id in ids for c in full):
            continue
        n += 1
        exact = v.has_atom(lambda a, p: a[0] == "cmp" and d in (a[2], a[3]) and
                           ((a[1] in ("oeq", "ueq", "foeq", "fueq") and p) or (a[1] in ("one", "une", "fone", "fune") and not p)) and
                           not Q.mentions(a[2] if a[3] == d else a[3], lambda x: x[0] == "call"))
        if not exact:
            bad = v
    ctx.ob("C02.5 R-PAIR", f, "short-number-rendering-reads-back-exactly", bad is None and n > 0,
           "print_number() keeps the 15-digit rendering of a double on a path that has not found it to read back to exactly the same "
           "double (the decision is left to a tolerance test): a request id such as 9007199254740991 is answered with another number, a "
           "value such as 0.30000000000000004 is notified as 0.3", witness=bad.witness() if bad else None)


def clause5_id(ctx, P):
    f = P.fn("response.c:create_common_response")
    n = 0
    for c in f.calls(("cJSON_CreateNumber", "cJSON_CreateString", "cJSON_Duplicate")):
        n += 1
        t = P.term(f, c.a[0])
        name = P.srcname_of(c.callee)
        lossy = Q.mentions(t, lambda x: Q.is_field_load(x, "struct.cJSON", "valueint") is not None) or \
            Q.mentions(t, lambda x: x[0] == "op" and x[1] in ("fptosi", "fptoui", "trunc"))
        src_ok = Q.mentions(t, lambda x: x[0] == "param" and x[1] == 1)
        ctx.ob("C02.5 R-BOUND", f, Q.ordinal_site(f, c, P), (not lossy) and src_ok,
               "the response id is rebuilt from the int-truncated field of the request id (%s): 1.5 is answered as 1, "
               "3000000000 as 2147483647" % fmt_term(t) if lossy else
               ("response id does not derive from the request id" if not src_ok else "id copied from %s" % fmt_term(t)))
    if n < 2:
        raise AnalysisBroken("create_common_response: id constructors not found")
    # key literal
    for c in f.calls("add_subobject_to_object"):
        ctx.ob("C02.5 R-PAIR", f, Q.ordinal_site(f, c, P) + ":key", Q.arg_literal(P, c, 3) == "id", "id stored under a key other than \"id\"")
    ctx.floor("C02.5 R-BOUND", 2)


def clause6_batch(ctx, P):
    arr = P.fn("parse.c:parse_json_array")
    d = P.fn("parse.c:parse_json_rpc")
    cs = arr.calls("parse_json_rpc")
    ctx.ob("C02.6 R-LOOP", arr, "dispatch:sites", len(cs) == 1, "array branch must dispatch each item exactly once (found %d sites)" % len(cs))
    for c in cs:
        t = P.term(arr, c.a[0])
        ok = Q.is_call_to(t, "cJSON_GetArrayItem") and t[2][0][0] == "param" and t[2][0][1] == 0 and t[2][1][0] == "phi"
        idx_ok = False
        bound_ok = False
        if ok:
            ph = arr.insts[t[2][1][1]]
            inits = [P.const_int(v) for (v, b) in ph.inc]
            steps = [P.term(arr, v) for (v, b) in ph.inc if P.const_int(v) is None]
            idx_ok = 0 in inits and len(steps) == 1 and steps[0] == ("op", "add", (("phi", ph.id), ("const", 1)))
            loops = arr.loops()
            hdr = [h for h, body in loops.items() if c.block in body]
            if hdr:
                tb = arr.term_inst(hdr[0])
                if tb.op == "br" and tb.a:
                    cnd = P.cond(arr, tb.a[0])
                    if cnd[0] != "const" and cnd[0][0] == "cmp" and cnd[0][1] == "ult" and cnd[0][2] == ("phi", ph.id) \
                            and Q.is_call_to(cnd[0][3], "cJSON_GetArraySize") and cnd[0][3][2][0][0] == "param":
                        bound_ok = True
        ctx.ob("C02.6 R-LOOP", arr, "dispatch:item-i", ok and idx_ok and bound_ok,
               "batch items are not dispatched as item i for i = 0..size-1 in increasing order (item=%s)" % fmt_term(t))
    # a request whose handling failed (-1: its answer could not be written, the connection is to be closed) ends the batch: nothing
    # of the later elements is processed or answered behind it
    badb = None
    nb = 0
    for p_ in P.paths(arr, loop_iters=2):
        v = Q.PathView(P, arr, p_)
        failed_at = None
        k = 0
        for (blk, atom, pol) in v.path:
            if atom is not None and failed_at is None and atom[0] == "cmp" and Q.is_call_to(atom[2], "parse_json_rpc") and \
                    ((atom[3] == ("const", -1) and Q._poleq(atom, pol)) or (atom[3] == ("const", 0) and (atom[1] if pol else Q.negate_pred(atom[1])) in ("slt", "ne"))):
                failed_at = k
            elif failed_at is not None and any(i.id == cs[0].id for i in arr.blocks[blk]):
                badb = v
            k += 1
        if failed_at is not None:
            nb += 1
    ctx.ob("C02.6 R-LOOP", arr, "batch-ends-at-the-first-failure", badb is None and nb > 0,
           "parse_json_array() goes on dispatching batch elements after one of them has failed with -1: their answers are written "
           "behind a response that could not be completed (a torn frame), on a connection that is about to be closed",
           witness=badb.witness() if badb else None)
    callers = P.callers_of(d)
    ctx.ob("C02.6 R-WHO", d, "dispatch:callers", all(c.fn.key in ("parse.c:parse_json_array", "parse.c:parse_message") for c in callers),
           "object dispatcher called from an unexpected place")
    ctx.floor("C02.6 R-LOOP", 3)


def clause7_one_of(ctx, P):
    er = P.fn("response.c:create_error_response")
    rr = P.fn("response.c:create_result_response")
    for f, want in ((er, "error"), (rr, None)):
        views = Q.path_views(ctx, P, f)
        bad = None
        for v in views:
            if v.ret_is_null():
                continue
            adds = [i for _, i in v.calls(("cJSON_AddItemToObject", "add_item_to_object"))]
            keys = []
            for a in adds:
                lit = Q.arg_literal(P, a, 1)
                keys.append(lit if lit is not None else P.term(f, a.a[1]))
            if want is not None:
                if keys.count("error") != 1 or "result" in keys:
                    bad = v
            else:
                if len(keys) != 1 or not (isinstance(keys[0], tuple) and keys[0][0] == "param" and keys[0][1] == 3):
                    bad = v
        ctx.ob("C02.7 R-ORDER", f, "one-of-result-error", bad is None,
               "a non-NULL return path of %s does not attach exactly one result/error member" % f.srcname,
               witness=bad.witness() if bad else None)
    for c in P.callers_of(rr):
        lit = Q.arg_literal(P, c, 3)
        t = P.term(c.fn, c.a[3])
        ok = lit in ("result", "error") or t[0] == "param"
        ctx.ob("C02.7 R-PAIR", c.fn, Q.ordinal_site(c.fn, c, P) + ":member", ok,
               "result response built with member name %s" % (lit or fmt_term(t)))
    h = P.fn("router.c:handle_routing_response")
    for c in P.callers_of(h):
        lit = Q.arg_literal(P, c, 2)
        mem = P.term(c.fn, c.a[1])
        pair = Q.is_call_to(mem, "cJSON_GetObjectItem") and mem[2][1] == ("str", lit)
        ctx.ob("C02.7 R-PAIR", c.fn, Q.ordinal_site(c.fn, c, P) + ":member", lit in ("result", "error") and pair,
               "owner's %s member relayed under the name %s" % (fmt_term(mem), lit))
    ctx.floor("C02.7 R-ORDER", 2)


def clause8_failure_class(ctx, P, cg):
    """a caller that tests a status for one exact failure value recognises every failure value the callee can produce"""
    from ..core.retconst import ret_consts
    summ = ret_consts(P, cg)
    n = 0
    for f in P.own_functions():
        for i in f.all_insts():
            if i.op != "icmp" or i.pred not in ("eq", "ne"):
                continue
            c = P.const_int(i.a[1])
            o = P.strip(f, i.a[0])
            if c is None or c >= 0 or not isinstance(o, int) or o < f.nparams:
                continue
            # through phis of one call result
            try:
                lv, _ = Q.leaves(P, f, o, through_loads=False)
            except AnalysisBroken:
                continue
            calls = [f.insts[l[3]] for l in lv if l[0] in ("call", "icall") and l[3] in f.insts]
            others = set()
            own_callee = False
            for ci in calls:
                for t in cg.targets(f, ci):
                    g = P.functions.get(t)
                    if g is not None and P.own(g):
                        own_callee = True
                        others |= {x for x in summ.get(t, set()) if x < 0 and x != c}
            if not own_callee:
                continue
            # the same status is also put through a sign test in this function: the exact comparison singles one value out of
            # the failure class, it does not define the class
            signed = False
            ids = {ci.id for ci in calls}
            for j in f.all_insts():
                if j.op == "icmp" and j.pred in ("slt", "sle", "sgt", "sge") and P.const_int(j.a[1]) in (0, -1):
                    try:
                        lv2, _ = Q.leaves(P, f, j.a[0], through_loads=False)
                    except AnalysisBroken:
                        continue
                    if ids & {l[3] for l in lv2 if l[0] in ("call", "icall")}:
                        signed = True
            if signed:
                continue
            n += 1
            ctx.ob("C02.8 R-RET", f, Q.ordinal_site(f, i, P) + ":failure-class-recognised", not others,
                   "a status is compared with exactly %d, but the callee can also fail with %s: that failure is taken for success "
                   "(e.g. a batch goes on after a request whose answer could not be queued, with the connection left open)" % (c, sorted(others)))
    if n < 1:
        raise AnalysisBroken("no exact-failure-value comparison on an own function's status found (expected parse_json_array)")


def run(ctx):
    for cfg in ctx.configs(["default"] if ctx.tier == "quick" else None):
        P, cg = cfg.P, cfg.cg
        clause8_failure_class(ctx, P, cg)
        clause1_overwrite(ctx, P, cg)
        clause1_dispatch(ctx, P, cg)
        clause2_noid(ctx, P)
        clause3_responses(ctx, P)
        clause5_id(ctx, P)
        clause5b_number_rendering(ctx, P)
        from .c04 import clause9b_utf8_boundaries      # ids written with escapes are echoed as the same text
        clause9b_utf8_boundaries(ctx, P)
        from .c04 import clause9c_hex_digits
        clause9c_hex_digits(ctx, P)
        clause6_batch(ctx, P)
        clause7_one_of(ctx, P)
