"""C06 — no crash / memory corruption: the input-reachable crash mechanisms that have a structural necessary condition."""
import os
from ..frontend import AnalysisBroken
from ..core import queries as Q
from ..core import affine as A
from ..core.program import fmt_term, fmt_atom
from . import c08, c09, c12, c16, c14

META = {
    "technique": "static analysis: repository-specific dataflow / guard-dominance / affine path rules over LLVM IR (CFG, SSA, resolved "
                 "call graph), plus one syntax-tree lint (clang-query over the compilation database) for signed shifts",
    "explanation": (
        "General memory safety of ~10k lines of pointer C is NOT decided. Decided are repository-specific rules for the crash "
        "mechanisms reachable from network input: (1) R-BOUND: the result of snprintf/vsnprintf is used as an index, pointer "
        "offset or in 'size - result' only on paths where it was tested >= 0 and < the buffer size (or replaced by an in-range "
        "constant); (2) slot-array completeness of fetch.matcher (C16.6); (3) R-NULL on websocket callbacks (C12.2); (4) the "
        "network message parser is length-bounded (C09.1); (5) R-BOUND: every double->integer conversion of a value that can come "
        "from JSON is dominated by an upper-bound test (in the function or at every call site that passes a non-constant); "
        "(6) fixed-size destination copies in the transport units: a memcpy/memmove with a non-constant length into a local or "
        "an embedded array is dominated by length == K / length <= K with K <= size, or the length is a MIN()-style bounded value, "
        "or - inside a read callback - every registration of that callback asks read_exactly for a constant count <= size; "
        "(7) sockaddr reinterpretation under the matching family test (C08.5); (8) the harvested epoll batch never exceeds its "
        "array: epoll_wait's maxevents equals the array length; (9) no released event is dispatched (C14.3)."),
    "not_decided": "all byte streams x all segmentations x all interleavings: absence of every other memory error, undefined behaviour "
                   "in arithmetic, stack depth of the recursive JSON parser, zlib internals",
    "assumptions": ["snprintf returns the length that would have been written; read_exactly(n) hands n bytes or 0 (C09.4)"],
}

NET_UNITS = ("socket_peer.c", "websocket.c", "websocket_peer.c", "http_connection.c", "parse.c", "peer.c", "config.c", "fetch.c",
             "element.c", "router.c", "response.c", "info.c", "authenticate.c", "timer.c", "buffered_socket.c", "http_server.c")


def clause1_snprintf(ctx, P):
    n = 0
    for f in P.own_functions():
        for c in f.calls(("snprintf", "vsnprintf")):
            size_t = P.term(f, c.a[1])
            if P.is_null(c.a[0]) or P.strip(f, c.a[0]) == ["n"]:
                continue  # length probe: snprintf(NULL, 0, ...)
            # transitive users through phi / casts
            uses = []
            st = [c.id]
            seen = set()
            while st:
                v = st.pop()
                if v in seen:
                    continue
                seen.add(v)
                for u in f.users(v):
                    if u.op in ("phi", "sext", "zext", "trunc"):
                        st.append(u.id)
                    elif u.op == "getelementptr" and any(s[0] in ("p", "a") and P.strip(f, s[1]) == v for s in u.path):
                        uses.append(u)
                    elif u.op == "sub" and P.strip(f, u.a[1]) == v:
                        uses.append(u)
            if not uses:
                continue
            n += 1
            size_c = P.const_int(c.a[1])
            views = Q.path_views(ctx, P, f)
            bad = None
            for u in uses:
                for v in views:
                    if u.block not in v.blocks or c.block not in v.blocks:
                        continue
                    idx = u.path[0][1] if u.op == "getelementptr" and u.path[0][0] == "p" and P.const_int(u.path[0][1]) != 0 else None
                    if u.op == "getelementptr":
                        for s in u.path:
                            if s[0] in ("p", "a") and P.const_int(s[1]) is None:
                                idx = s[1]
                    else:
                        idx = u.a[1]
                    val = v.resolve(P.strip(f, v.resolve(idx)), v.blocks.index(u.block))
                    # peel casts
                    for _ in range(6):
                        if isinstance(val, int) and val >= f.nparams and f.insts[val].op in ("sext", "zext", "trunc"):
                            val = v.resolve(P.strip(f, f.insts[val].a[0]), v.blocks.index(u.block))
                    k = P.const_int(val)
                    if k is not None:
                        if size_c is not None and not (0 <= k < size_c):
                            bad = (v, "constant %d outside [0, %d)" % (k, size_c))
                        continue
                    if val == c.id:
                        lo = v.has_atom(lambda a, p: a[0] == "cmp" and a[2][0] == "call" and a[2][3] == c.id and a[3] == ("const", 0) and (a[1] if p else Q.negate_pred(a[1])) == "sge")
                        hi = v.has_atom(lambda a, p: a[0] == "cmp" and a[2][0] == "call" and a[2][3] == c.id and a[3] == size_t and (a[1] if p else Q.negate_pred(a[1])) in ("slt", "ult"))
                        if not (lo and hi):
                            bad = (v, "snprintf result used without the tests 0 <= result < size (lower=%s upper=%s)" % (lo, hi))
                    else:
                        bad = (v, "offset value not recognised: %s" % fmt_term(P.term(f, val)))
            ctx.ob("C06.1 R-BOUND", f, Q.ordinal_site(f, c, P), bad is None,
                   "the return value of %s (the untruncated length) is used as an offset / in a size subtraction: %s - a long "
                   "client-chosen peer name writes outside the buffer" % (P.srcname_of(c.callee), bad[1] if bad else "") if bad else
                   "result bounded before use as offset", witness=bad[0].witness() if bad else None)
    if n < 2:
        raise AnalysisBroken("snprintf results used as offsets: %d site(s) found" % n)
    ctx.floor("C06.1 R-BOUND", 2)


def clause5_fptoui(ctx, P):
    n = 0
    for f in P.own_functions():
        for i in f.all_insts():
            if i.op not in ("fptoui", "fptosi"):
                continue
            n += 1
            # leaves through floating/integer arithmetic
            lv = set()
            st = [i.a[0]]
            seen = set()
            while st:
                o = st.pop()
                so = P.strip(f, o)
                if isinstance(so, int) and so >= f.nparams and so not in seen and f.insts[so].op in ("fmul", "fadd", "fsub", "fdiv", "mul", "add", "sub", "sitofp", "uitofp", "fpext", "fptrunc", "phi", "select"):
                    seen.add(so)
                    ins = f.insts[so]
                    st.extend([x for x, _ in ins.inc] if ins.op == "phi" else ins.a)
                else:
                    lv.add(P.term(f, so))
            # operands: parameters (checked at callers), loads of valuedouble (checked here), constants
            problems = []
            for l in lv:
                if l[0] in ("fp", "const"):
                    continue
                if l[0] == "param":
                    for c in P.callers_of(f):
                        at = P.term(c.fn, c.a[l[1]])
                        alv, _ = Q.leaves(P, c.fn, c.a[l[1]], through_loads=False)
                        if all(x[0] in ("fp", "const") or (x[0] == "load" and x[1][0] == "global") for x in alv):
                            continue  # compile-time configuration constant

                        def upper(atom, pol, at=at):
                            if atom[0] != "cmp" or not atom[1].startswith("f"):
                                return False
                            if atom[2] != at:
                                return False
                            eff = atom[1][1:]
                            # value <= / < bound holds on this edge
                            return (eff in ("ogt", "ugt", "oge", "uge") and not pol) or (eff in ("ole", "ule", "olt", "ult") and pol)
                        if not Q.must_pass(P, c.fn, c.block, upper):
                            problems.append("%s passes %s without an upper bound test" % (c.fn.srcname, fmt_term(at)))
                elif l[0] == "load":
                    def upper2(atom, pol, l=l):
                        if atom[0] != "cmp" or not atom[1].startswith("f") or atom[2] != l:
                            return False
                        eff = atom[1][1:]
                        return (eff in ("ogt", "ugt", "oge", "uge") and not pol) or (eff in ("ole", "ule", "olt", "ult") and pol)
                    if not Q.must_pass(P, f, i.block, upper2):
                        problems.append("%s converted without an upper bound test" % fmt_term(l))
                else:
                    problems.append("operand %s" % fmt_term(l))
            ctx.ob("C06.5 R-BOUND", f, "%s#%d" % (i.op, n), not problems,
                   "double -> integer conversion of a JSON-supplied number without an upper bound (undefined behaviour for e.g. "
                   "\"timeout\":1e30): %s" % "; ".join(problems) if problems else "conversion operand bounded at every source")
    if n < 1:
        raise AnalysisBroken("no double->integer conversion found (anchor convert_seconds_to_nsec)")
    ctx.floor("C06.5 R-BOUND", 1)


def _dest_size(P, f, o):
    """size in bytes of the fixed object a destination pointer points into, and the constant offset into it"""
    t = P.term(f, o)
    off = 0
    while True:
        if t[0] == "index" and t[2][0] == "const":
            off += t[2][1] * t[3]
            t = t[1]
            continue
        if t[0] == "byteoff":
            off += t[2]
            t = t[1]
            continue
        break
    if t[0] == "alloca":
        ins = f.insts[t[1]]
        return (ins.size, off, "local " + (ins.name or ""))
    if t[0] == "field":
        sd = P.structs.get(t[2], {})
        for m in sd.get("members", []):
            if m["name"] == t[3]:
                ty = sd["fields"][m["idx"]]["ty"]
                if ty.startswith("["):
                    return (m["size_bits"] // 8, off, "%s.%s" % (t[2], t[3]))
    return None


def clause6_copies(ctx, P, cg):
    n = 0
    rc_key = ("struct.buffered_socket", P.field_index("struct.buffered_socket", "read_callback"))
    read_cbs = cg.field_funcs.get(rc_key, set())
    rkey = ("struct.buffered_reader", P.field_index("struct.buffered_reader", "read_exactly"))
    for f in P.own_functions():
        if f.base not in ("socket_peer.c", "websocket.c", "websocket_peer.c", "http_connection.c", "parse.c", "config.c"):
            continue
        for i in f.all_insts():
            if i.op != "call" or not i.callee or not (i.callee.startswith("llvm.memcpy") or i.callee.startswith("llvm.memmove")):
                continue
            if P.const_int(i.a[2]) is not None:
                ds = _dest_size(P, f, i.a[0])
                if ds is not None and ds[0] is not None:
                    k = P.const_int(i.a[2])
                    ctx.ob("C06.6 R-BOUND", f, Q.ordinal_site(f, i, P), ds[1] + k <= ds[0], "constant copy of %d bytes at offset %d into %s of %d bytes" % (k, ds[1], ds[2], ds[0]), nontrivial=False)
                continue
            dst = P.term(f, i.a[0])
            size = None
            ds = _dest_size(P, f, i.a[0])
            if ds is None:
                # destination is a parameter: look at the single caller's object
                if dst[0] == "param":
                    cs = P.callers_of(f)
                    if len(cs) >= 1:
                        sizes = [_dest_size(P, c.fn, c.a[dst[1]]) for c in cs]
                        if all(s is not None for s in sizes):
                            ds = min(sizes, key=lambda s: s[0] - s[1])
                if ds is None:
                    continue  # heap destinations: C19 / C10 rules
            size = ds[0] - ds[1]
            n += 1
            nt = P.term(f, i.a[2])

            def bounded(atom, pol, nt=nt):
                if atom[0] != "cmp" or atom[3][0] != "const":
                    return False
                if atom[2] != nt and not A.equal(P, atom[2], nt):
                    return False
                eff = atom[1] if pol else Q.negate_pred(atom[1])
                k = atom[3][1]
                return (eff == "eq" and k <= size) or (eff in ("ule", "sle") and 0 <= k <= size) or (eff in ("ult", "slt") and k - 1 <= size)
            ok = Q.must_pass(P, f, i.block, bounded)
            how = "guarded"
            if not ok:
                # MIN()-style value: phi/select whose every incoming is a constant <= size or is guarded on its edge
                v = P.strip(f, i.a[2])
                if isinstance(v, int) and v >= f.nparams and f.insts[v].op in ("phi", "select"):
                    ins = f.insts[v]
                    incs = [x for x, _ in ins.inc] if ins.op == "phi" else ins.a[1:3]
                    okm = True
                    for x in incs:
                        k = P.const_int(x)
                        if k is not None:
                            okm = okm and k <= size
                        else:
                            xt = P.term(f, x)
                            # the non-constant alternative must be taken only when it is smaller than the constant
                            cond = None
                            for pb in f.preds[ins.block] if ins.op == "phi" else []:
                                for (s, atom, pol) in P.edge_conds(f, pb):
                                    pass
                            gs = Q.guards_of(P, f, [b for (val, b) in ins.inc if val == x][0]) if ins.op == "phi" else []
                            okg = any(a[0] == "cmp" and a[3] == xt and a[2][0] == "const" and a[2][1] <= size and (a[1] if p else Q.negate_pred(a[1])) in ("ugt", "uge")
                                      or a[0] == "cmp" and a[2] == xt and a[3][0] == "const" and a[3][1] <= size and (a[1] if p else Q.negate_pred(a[1])) in ("ult", "ule")
                                      for (a, p) in gs)
                            okm = okm and okg
                    ok = okm
                    how = "MIN-bounded"
            if not ok and f.name in read_cbs and nt[0] == "param" and nt[1] == 2:
                # read callback: every registration asks for a constant count <= size
                regs = []
                for g in P.own_functions():
                    for j in g.all_insts():
                        if j.op == "call" and not j.callee and cg.icall_field(g, j) == rkey:
                            fn = P.strip(g, j.a[2])
                            if isinstance(fn, list) and fn[0] == "f" and fn[1] == f.name:
                                regs.append(P.const_int(j.a[1]))
                ok = bool(regs) and all(k is not None and k <= size for k in regs)
                how = "read_exactly(%s) registrations" % regs
            ctx.ob("C06.6 R-BOUND", f, Q.ordinal_site(f, i, P), ok,
                   "copy of %s bytes into %s (%d bytes) without a dominating bound on the length" % (fmt_term(nt), ds[2], size) if not ok
                   else "length bounded (%s)" % how)
    if n < 3:
        raise AnalysisBroken("variable-length copies into fixed objects: %d" % n)
    ctx.floor("C06.6 R-BOUND", 3)


def clause8_epoll(ctx, P):
    run = P.fn("eventloop_epoll.c:eventloop_epoll_run")
    for c in run.calls("epoll_wait"):
        ds = _dest_size(P, run, c.a[1])
        k = P.const_int(c.a[2])
        esz = P.structs.get("struct.epoll_event", {}).get("size", 12)
        ok = ds is not None and k is not None and k * esz <= ds[0]
        ctx.ob("C06.8 R-BOUND", run, "epoll_wait:maxevents", ok, "epoll_wait may harvest %s events into an array of %s bytes" % (k, ds[0] if ds else "?"))


def clause10_stack_arrays(ctx, P):
    """writes into fixed-size local byte arrays stay inside them: for every store / memcpy / memset whose destination is a
    local array plus an offset that is affine in parameters, constants and bounded remainders, offset >= 0 and
    offset + width <= size is entailed by the path (affine path evaluation). Offsets that depend on other values (results of
    calls, loaded fields) are not decided by this clause."""
    from ..core.pathmem import PathEval, a_add, a_fmt
    n = 0
    nfun = 0
    for f in P.own_functions():
        arrs = {i.id: i for i in f.all_insts() if i.op == "alloca" and i.size and i.at and i.at.startswith("[") and i.at.endswith("x i8]")}
        if not arrs:
            continue
        try:
            paths = P.paths(f, loop_iters=1, max_paths=20000)
        except AnalysisBroken:
            ctx.note("%s: too many paths for the local-array clause" % f.key)
            continue
        nfun += 1
        bad = None
        for p_ in paths:
            pe = PathEval(P, f, Q.PathView(P, f, p_))
            for e in pe.events:
                if e.kind == "store" and isinstance(e.data["cell"], tuple) and e.data["cell"][0] == "ptrcell" and e.data["cell"][1] == "mem":
                    addr = ({k: c for k, c in e.data["cell"][2][0]}, e.data["cell"][2][1])
                    width = ({}, 1)
                elif e.kind == "call" and e.data["callee"] in ("memcpy", "memmove", "memset") and len(e.data["args"]) >= 3:
                    addr = e.data["args"][0]
                    width = e.data["args"][2]
                else:
                    continue
                al = [l for l in addr[0] if l[0] == "alloca" and l[1] in arrs and addr[0][l] == 1]
                if len(al) != 1:
                    continue
                off = ({l: c for l, c in addr[0].items() if l != al[0]}, addr[1])
                if any(l[0] not in ("param", "rem", "quot") for l in list(off[0]) + list(width[0])):
                    continue   # not decided here
                n += 1
                size = arrs[al[0][1]].size
                lo = pe.entails(off, upto=e.pos)
                hi = pe.entails(a_add(({}, size), a_add(off, width), -1), upto=e.pos)
                if not (lo and hi):
                    bad = (pe, e, off, width, size, arrs[al[0][1]].name)
        ctx.ob("C06.7 R-BOUND", f, "writes-into-local-arrays-stay-inside", bad is None,
               "%s bytes are written at offset %s of the %d-byte local array '%s' (%s) and nothing on the path keeps that inside the "
               "array" % (a_fmt(bad[3]), a_fmt(bad[2]), bad[4], bad[5], bad[1].inst.loc) if bad else "",
               witness=bad[0].view.witness() if bad else None)
    if nfun < 5 or n < 8:
        raise AnalysisBroken("local byte arrays: %d functions, %d decided writes" % (nfun, n))


def clause11_no_narrowing(ctx, P):
    """counters and lengths keep their width: no store into a field of one of cjet's own structs truncates a computed value
    (on the reference tree there is no such store at all; the only truncating field stores go into zlib's z_stream). A field
    that is narrower than the arithmetic that feeds it wraps silently (table sizes, frame lengths, queued byte counts)."""
    OWN_EXEMPT = ("struct.z_stream_s",)
    bad = []
    n = 0
    for f in P.own_functions():
        for i in f.all_insts():
            if i.op != "store":
                continue
            t = P.term(f, i.a[1])
            if t[0] == "global":
                # a counter kept in a global of its own (the routed-request counter): same rule
                t = ("field", t, "global", t[1])
            elif t[0] != "field" or t[2] in OWN_EXEMPT or not t[2].startswith("struct."):
                continue
            n += 1
            o = i.a[0]
            # a value that was cut to a narrower integer on its way (an 'unsigned int seconds' between a 64-bit quotient and a
            # 64-bit member) is just as lossy as a narrow member
            hops = 0
            while isinstance(o, int) and o >= f.nparams and f.insts[o].op in ("zext", "sext") and hops < 4:
                o = f.insts[o].a[0]
                hops += 1
            if hops and isinstance(o, int) and o >= f.nparams and f.insts[o].op == "trunc" and f.insts[o].ty == "i1":
                continue    # a bool on its way through a register
            if isinstance(o, int) and o >= f.nparams and f.insts[o].op == "trunc":
                src = P.term(f, f.insts[o].a[0])
                if src[0] != "const":
                    bad.append((f, i, t, src))
    for (f, i, t, src) in bad[:6]:
        ctx.ob("C06.8 R-BOUND", f, Q.ordinal_site(f, i, P) + ":no-narrowing-store", False,
               "%s.%s is narrower than the value stored into it (%s is truncated at %s): the field wraps where the computation does "
               "not" % (t[2], t[3], fmt_term(src)[:80], i.loc))
    ctx.ob("C06.8 R-BOUND", "own-structs", "no-narrowing-stores", not bad and n > 200,
           "%d store(s) into own struct fields truncate a computed value" % len(bad))
    # the largest accepted timeout converts without overflow: (upper bound of the refusal test) * (conversion factor) < 2^64,
    # computed in double arithmetic like the program does
    gt = P.fn("timer.c:get_timeout_in_nsec")
    cv = P.fn("timer.c:convert_seconds_to_nsec")
    bounds = []
    for i in gt.all_insts():
        if i.op == "fcmp" and i.pred in ("ogt", "ugt", "oge", "uge"):
            r = P.term(gt, i.a[1])
            if r[0] == "fp" and Q.mentions(P.term(gt, i.a[0]), lambda x: x[0] == "field" and x[3] == "valuedouble"):
                bounds.append(r[1])
    factor = None
    for i in cv.all_insts():
        if i.op == "fmul":
            for a_ in i.a:
                t = P.term(cv, a_)
                if t[0] == "fp":
                    factor = t[1]
    kmax = max(bounds) if bounds else None
    okmax = kmax is not None and factor is not None and kmax * factor < float(2 ** 64)
    ctx.ob("C06.5 R-BOUND", gt, "largest-accepted-timeout-converts", okmax,
           "timeouts up to %r s are accepted and multiplied by %r: that product is not below 2^64 in double arithmetic, so the conversion "
           "of the largest accepted timeout to uint64_t is undefined" % (kmax, factor))


# call sites of the reference tree that read a cJSON string without a type test of that very object in the same function, with
# the reason why the object is a string there (confirmed by reading); keyed by function, callee and origin of the object
VALUESTRING_REFERENCE = {
    ("fetch.c:ids_equal", "strcmp", "param:id2"): "the two types are compared first and id1->type == cJSON_String is tested: id2 has the same type",
    ("fetch.c:fill_path_elements", "duplicate_string", "param:matcher"): "create_matcher() selects this path only for the table row whose operand type is cJSON_String",
    ("groups.c:add_group", "strcmp", "global:all_groups"): "all_groups only ever receives cJSON_CreateString() items (add_group)",
    ("groups.c:get_groups", "strcmp", "global:all_groups"): "all_groups only ever receives cJSON_CreateString() items (add_group)",
}


def clause12_valuestring(ctx, P):
    """a cJSON item's valuestring is NULL unless the item is a string: wherever own code hands X->valuestring to a function,
    X->type == cJSON_String is established for that X on every path (if-form or switch-form), or the site is one of the
    reference tree's confirmed exceptions above"""
    STR = Q.macro(P, "fetch.c", "cJSON_String")
    n = 0
    for f in P.own_functions():
        for c in f.all_insts():
            if c.op != "call" or not c.callee:
                continue
            nm = P.srcname_of(c.callee)
            if nm.startswith(("llvm.", "log_")):
                continue
            for a in c.a:
                b = Q.is_field_load(P.term(f, a), "struct.cJSON", "valuestring")
                if b is None:
                    continue
                n += 1

                def isstr(atom, pol, b=b):
                    if atom[0] == "switch":
                        return Q.is_field_load(atom[1], "struct.cJSON", "type") == b and atom[2] == STR
                    if atom[0] != "cmp":
                        return False
                    return Q.is_field_load(atom[2], "struct.cJSON", "type") == b and atom[3] == ("const", STR) and Q._poleq(atom, pol)
                if Q.must_pass(P, f, c.block, isstr):
                    continue
                origin = "param:" + b[2] if b[0] == "param" else ("global:" + next((x[1] for x in Q.subterms(b) if x[0] == "global"), "?")
                                                                  if Q.mentions(b, lambda x: x[0] == "global") else fmt_term(b)[:60])
                ref = VALUESTRING_REFERENCE.get((f.key, nm, origin))
                ctx.ob("C06.9 R-NULL", f, "%s:%s:%s" % (Q.ordinal_site(f, c, P), nm, origin), ref is not None,
                       "%s() is given %s->valuestring without %s->type == cJSON_String being established in %s: for a number, an object "
                       "or null the pointer is NULL" % (nm, fmt_term(b)[:60], fmt_term(b)[:40], f.srcname) if ref is None else "reference exception: " + ref)
    if n < 15:
        raise AnalysisBroken("uses of cJSON valuestring as a call argument: %d" % n)


def clause11b_bitfield_copies(ctx, P):
    """a bit-field that keeps a copy of another bit-field (the opcode of a fragmented message next to the opcode of the frame) is at
    least as wide: the read-modify-write that stores member B masks the value to B's width, so a narrower B silently drops the top
    bits of A (reserved opcodes 5 and 6 become 1 and 2)"""
    n = 0
    bad = None
    for f in P.own_functions():
        for i in f.all_insts():
            if i.op != "store":
                continue
            d = P.term(f, i.a[1])
            if d[0] != "field" or (d[2], d[3]) not in P.bitfields:
                continue
            v = P.term(f, i.a[0])
            if not (v[0] == "op" and v[1] == "or" and v[2][0][0] == "op" and v[2][0][1] == "and" and v[2][0][2][0] == ("load", d)):
                continue
            ins = v[2][1]
            sh = 0
            if ins[0] == "op" and ins[1] == "shl" and ins[2][1][0] == "const":
                sh = ins[2][1][1]
                ins = ins[2][0]
            if not (ins[0] == "op" and ins[1] == "and" and ins[2][1][0] == "const"):
                continue
            wb = bin(ins[2][1][1] & 0xFFFFFFFF).count("1")
            src = ins[2][0]
            a = Q.bitfield_of(P, src)
            if a is None:
                continue
            wa = next((m["size_bits"] for m in P.bitfields.get((d[2], d[3]), []) if m["name"] == a[1]), None)
            nb = P.bitfield_name(d[2], d[3], sh, (1 << wb) - 1)
            n += 1
            if wa is not None and wb < wa and bad is None:
                bad = (f, i, a[1], wa, nb, wb)
    ctx.ob("C06.8 R-BOUND", "own-structs", "bit-field-copies-keep-their-width", bad is None and n >= 1,
           ("%s() copies the %d-bit member %s into the %d-bit member %s at %s: the upper bits are dropped without a trace" %
            (bad[0].srcname, bad[3], bad[2], bad[5], bad[4], bad[1].loc)) if bad else "%d bit-field to bit-field copies keep their width" % n)


def clause14_signed_shifts(ctx, P):
    """'executes undefined behaviour' at the level of the syntax tree (the IR has no signedness): no own or bundled unit shifts a
    value of type int left into or past its sign bit where that can be seen from the types - an unsigned char / unsigned short
    operand that the usual promotions turned into int, shifted by a constant that can move a set bit to bit 31 (b << 24 with
    b >= 0x80), or an int literal shifted by 31.  Matches of sa/lints/shift.cq over every unit of the compilation database,
    computed by the front end; the query's positive example must match on every run."""
    l = P.facts.get("macros", {}).get("__lints__")
    if not l or l.get("shift_positive") != [4, 5, 6]:
        raise AnalysisBroken("shift lint: the positive example did not match as expected (%s)" % (l or {}).get("shift_positive"))
    hits = l["shift"]
    ctx.count("shift_lint_hits", len(hits))
    ctx.ob("C06.11 R-UB", "all-units", "no-shift-into-the-sign-bit", not hits,
           "%s: a promoted unsigned char/short (or an int literal) is shifted left so that a set bit reaches the sign bit of int - "
           "undefined behaviour (e.g. the SHA-1 padding byte 0x80 << 24 on every websocket handshake); cast the operand to an unsigned "
           "32-bit type first" % ", ".join(hits[:6]))


# int literal << variable, used as an unsigned value: undefined as soon as the amount can reach 31.  The amounts at these sites of the
# reference tree are bounded well below that (confirmed by reading); a site in another function must be looked at
SHIFT_VAR_REFERENCE = {
    ("http_parser.c", "parse_url_char"): "1 << UF_*: enumerators 0..6 of http_parser_url_fields",
    ("http_parser.c", "http_parser_parse_url"): "1 << UF_* / 1 << uf: enumerators 0..6",
    ("http_parser.c", "http_parse_host"): "1 << UF_*: enumerators 0..6",
    ("deflate.c", "deflateInit2_"): "1 << w_bits (8..15), 1 << hash_bits (memLevel + 7 <= 16), 1 << (memLevel + 6) (<= 15)",
    ("hashtable.h", "hashtable_create"): "1 << order: the configured table order (CONFIG_*_TABLE_ORDER, checked against the hop width by C17.1)",
}


def clause14b_literal_shifts(ctx, P):
    """the second syntax-tree lint (sa/lints/shift_var.cq): an int literal shifted left by a non-constant amount whose result is used
    as an unsigned value - undefined when the amount reaches 31.  Every match is either in a function of the reference table above
    (amount bounded, with the reason) or reported"""
    l = P.facts.get("macros", {}).get("__lints__")
    if not l or l.get("shift_var_positive") != [10]:
        raise AnalysisBroken("shift_var lint: the positive example did not match as expected (%s)" % (l or {}).get("shift_var_positive"))
    starts = {}
    for f in P.functions.values():
        if f.file and f.line:
            starts.setdefault(os.path.basename(f.file), []).append((f.line, f.srcname))
    bad = []
    n = 0
    for hit in l["shift_var"]:
        path, line = hit.split(":")[0], int(hit.split(":")[1])
        base = os.path.basename(path)
        n += 1
        cands = sorted(x for x in starts.get(base, []) if x[0] <= line)
        fn = cands[-1][1] if cands else "?"
        # functions instantiated from hashtable.h carry the table's name: compare by prefix; their DI file is the including unit
        key = next((k for k in SHIFT_VAR_REFERENCE if (k[0] == base or k[0] == "hashtable.h") and (fn == k[1] or fn.startswith(k[1] + "_"))), None)
        if key is None and sum(1 for x in starts.get(base, []) if x[0] == line) > 3:
            # all functions of a DECLARE_HASHTABLE_* instantiation carry the line of the macro call: the match is in hashtable.h
            key = ("hashtable.h", "hashtable_create")
        if key is None:
            bad.append("%s (in %s)" % (hit, fn))
    ctx.count("shift_var_lint_hits", n)
    ctx.ob("C06.11 R-UB", "all-units", "literal-shifted-by-a-variable-stays-below-the-sign-bit", not bad,
           "%s: an int literal is shifted left by a variable amount and the result used as an unsigned value, in a function where the "
           "amount has not been confirmed to stay below 31 (e.g. 1 << j over up to 32 access groups): use an unsigned literal" % ", ".join(bad[:5]))


# printf-like functions: name -> index of the format argument
FORMATTED = {"printf": 0, "fprintf": 1, "dprintf": 1, "sprintf": 1, "snprintf": 2, "vprintf": 0, "vfprintf": 1, "vsprintf": 1, "vsnprintf": 2,
             "syslog": 1, "vsyslog": 1, "log_err": 0, "log_warn": 0, "log_info": 0, "log_peer_err": 1, "log_peer_info": 1}


def clause13_format_strings(ctx, P):
    """the format of every printf-like call in own code is a string literal - or the format parameter of a function that is itself
    printf-like (the varargs wrappers), whose callers are held to the same rule.  Text that a peer can choose (its name, bytes of
    its messages, payloads) is data, never a format: '%n' or '%s' in it would write to or read from wherever the stack points."""
    n = 0
    bad = None
    for f in P.own_functions():
        for c in f.all_insts():
            if c.op != "call" or not c.callee:
                continue
            nm = P.srcname_of(c.callee)
            k = FORMATTED.get(nm)
            if k is None or k >= len(c.a):
                continue
            n += 1
            t = P.strip(f, P.term(f, c.a[k]))
            if t[0] == "str":
                continue
            if t[0] == "param" and FORMATTED.get(f.srcname) == t[1]:
                continue
            if bad is None:
                bad = (f, c, nm, t)
    ctx.ob("C06.10 R-TAINT", "own-code", "formats-are-literals", bad is None and n >= 100,
           ("%s() calls %s() at %s with %s as the format: that is text assembled at run time (peer names, message bytes) - a '%%' in it "
            "is interpreted (%%n writes, %%s reads through a stray pointer)" % (bad[0].srcname, bad[2], bad[1].loc, fmt_term(bad[3])[:60])) if bad else
           "%d printf-like calls, every format a literal or a forwarded format parameter" % n)


def clause9_unmask(ctx, P):
    """unmask_payload: the length arithmetic of the aligned fast path does not wrap: every unsigned subtraction outside the
    loops (bytes before the first aligned word, number of whole words, bytes after the last) is non-negative on every path,
    given the guard that selects the fast path. A wrapped count turns into an XOR far beyond the frame."""
    from ..core.pathmem import PathEval, a_add, a_fmt
    f = P.fn("websocket.c:unmask_payload")
    inloop = set()
    for h, body in f.loops().items():
        inloop |= body
    n = 0
    bad = None
    seen = set()
    for p in P.paths(f, loop_iters=1):
        pe = PathEval(P, f, Q.PathView(P, f, p), watch_ops=("sub",))
        for e in pe.events:
            if e.kind != "op" or e.inst.block in inloop or e.inst.ty not in ("i64", "i32"):
                continue
            n += 1
            if not pe.entails(e.data["value"], upto=e.pos):
                if e.inst.id not in seen:
                    seen.add(e.inst.id)
                    bad = (pe, e)
    ctx.ob("C06.6 R-BOUND", f, "length-arithmetic-does-not-wrap", bad is None and n >= 3,
           "%s - %s at %s can be negative on a path into the aligned fast path (nothing on the path bounds the payload length from "
           "below by the alignment slack): the wrapped value becomes a word count / byte count and the mask is XORed far beyond the "
           "frame" % (a_fmt(bad[1].data["x"]), a_fmt(bad[1].data["y"]), bad[1].inst.loc) if bad else "%d subtractions checked" % n,
           witness=bad[0].view.witness() if bad else None)
    # every access to the 4-byte mask is indexed modulo 4
    okm = True
    nm = 0
    for i in f.all_insts():
        if i.op == "load":
            t = P.term(f, i.a[0])
            if t[0] == "index" and t[1] == ("param", 2, f.params[2]["name"]):
                nm += 1
                idx = t[2]
                okm = okm and idx[0] == "op" and ((idx[1] == "urem" and idx[2][1] == ("const", 4)) or (idx[1] == "and" and idx[2][1] == ("const", 3)))
    ctx.ob("C06.6 R-BOUND", f, "mask-index-modulo-4", okm and nm >= 3, "the masking key is read at an index that is not reduced modulo 4")


NONNULL_ARGS = {"memcpy": (0, 1), "memmove": (0, 1), "memcmp": (0, 1), "strlen": (0,), "strcmp": (0, 1), "strncmp": (0, 1),
                "strcasecmp": (0, 1), "strncasecmp": (0, 1), "strchr": (0,), "memchr": (0,), "memset": (0,),
                "llvm.memcpy": (0, 1), "llvm.memmove": (0, 1), "llvm.memset": (0,)}


def clause17_null_with_zero_length(ctx, P, cg):
    """'(NULL, 0)' for an empty payload is handed down through callbacks.  The C library's copy and compare functions have
    undefined behaviour for a null pointer even when the length is 0, and a dereference is a crash: wherever such a pointer
    parameter (followed from every call that passes a literal NULL together with a literal 0, through direct and resolved indirect
    calls, keeping the pairing pointer/length) reaches one of these functions or a load/store, the site is dominated by a test
    that excludes it - the pointer is not null, or the companion length is not 0 (`len > 0`, `len != 0`, `i < len`)."""
    work = []
    seen = set()

    def push(g, pi, li, origin):
        k = (g.name, pi, li)
        if k not in seen and pi < g.nparams:
            seen.add(k)
            work.append((g, pi, li, origin))
    nsrc = 0
    for f in P.own_functions():
        for c in f.all_insts():
            if c.op != "call":
                continue
            nulls = [k for k, a in enumerate(c.a) if P.is_null(a)]
            zeros = [k for k, a in enumerate(c.a) if not isinstance(a, int) and not P.is_null(a) and P.const_int(a) == 0]
            if not nulls or not zeros:
                continue
            for tn in cg.targets(f, c):
                g = P.functions.get(tn)
                if g is None or not P.own(g):
                    continue
                for k in nulls:
                    # the companion: the zero literal that follows the pointer in the argument list (buf, len)
                    comp = [z for z in zeros if z == k + 1 and z < g.nparams and g.params[z]["ty"].startswith("i") and not g.params[z]["ty"].endswith("*")]
                    if comp:
                        nsrc += 1
                        push(g, k, comp[0], "%s() called with (NULL, 0) at %s" % (g.srcname, c.loc))
    nsink = 0
    bad = []
    while work:
        g, pi, li, origin = work.pop()

        def is_p(o, idx):
            return P.strip(g, o) == idx

        def excluded(block):
            def guard(atom, pol):
                pt = ("param", pi, g.params[pi]["name"])
                lt = ("param", li, g.params[li]["name"])
                if atom[0] == "cmp":
                    a, b, pred = atom[2], atom[3], atom[1]
                    if a == pt and b == ("null",):
                        return (pred == "ne") == bool(pol)
                    if a == lt and b[0] == "const":
                        # the edge is taken only when `len <pred> c` has the truth value pol: excluded iff `0 <pred> c` has the other
                        c = b[1]
                        cu = c & 0xFFFFFFFFFFFFFFFF
                        holds = {"eq": 0 == c, "ne": 0 != c, "ult": 0 < cu, "ule": 0 <= cu, "ugt": 0 > cu, "uge": 0 >= cu,
                                 "slt": 0 < c, "sle": 0 <= c, "sgt": 0 > c, "sge": 0 >= c}.get(pred)
                        return holds is not None and holds != bool(pol)
                    if b == lt and pred in ("ult", "slt") and pol:      # i < len
                        return True
                    if b == lt and pred in ("uge", "sge") and not pol:  # !(i >= len)
                        return True
                    if a == lt and pred in ("ugt", "sgt") and pol:      # len > i
                        return True
                    if a == lt and pred in ("ule", "sle") and not pol:  # !(len <= i)
                        return True
                if atom[0] == "truth":
                    return atom[1] in (pt, lt) and pol
                return False
            return Q.must_pass(P, g, block, guard)
        for i in g.all_insts():
            if i.op == "call":
                ks = [k for k, a in enumerate(i.a) if is_p(a, pi)]
                if not ks:
                    continue
                name = P.srcname_of(i.callee) if i.callee else None
                base = None
                if name:
                    base = name if name in NONNULL_ARGS else next((n for n in NONNULL_ARGS if name.startswith(n + ".")), None)
                if base is not None:
                    if any(k in NONNULL_ARGS[base] for k in ks):
                        nsink += 1
                        if not excluded(i.block):
                            bad.append((g, i, "%s()" % base, origin))
                    continue
                ls = [k for k, a in enumerate(i.a) if is_p(a, li)]
                for tn in cg.targets(g, i):
                    h = P.functions.get(tn)
                    if h is None or not P.own(h):
                        continue
                    if excluded(i.block):
                        continue
                    for k in ks:
                        if ls:
                            push(h, k, ls[0], origin)
                        elif k + 1 < len(i.a) and not isinstance(i.a[k + 1], int) and P.const_int(i.a[k + 1]) == 0:
                            push(h, k, k + 1, origin)
            elif i.op in ("load", "store"):
                addr = i.a[0] if i.op == "load" else i.a[1]
                lv, _ = Q.leaves(P, g, addr, through_loads=False)
                if any(l[0] == "param" and l[1] == pi for l in lv):
                    nsink += 1
                    if not excluded(i.block):
                        bad.append((g, i, "a %s through it" % i.op, origin))
    ctx.ob("C06.12 R-NULL", P.fn("websocket.c:ws_get_payload"), "null-with-zero-length-reaches-no-copy-or-dereference",
           not bad and nsrc >= 1 and nsink >= 1,
           ("%s: the pointer parameter '%s' of %s() can be the NULL of an empty payload (%s) and reaches %s at %s without a test that "
            "excludes it (pointer not null, or companion length not 0): undefined behaviour for a null pointer even with length 0" %
            (len(bad), "payload", bad[0][0].srcname, bad[0][3], bad[0][2], bad[0][1].loc))
           if bad else "%d (NULL, 0) hand-over sites, %d uses of such parameters, all behind an excluding test" % (nsrc, nsink),
           detail={"unguarded": ["%s %s at %s" % (b[0].srcname, b[2], b[1].loc) for b in bad[:10]]})


def clause18_decoded_string_fits(ctx, P):
    """parse_string() sizes its output in a scan before it decodes: input bytes between the quotes minus the bytes it declares as
    producing no output.  An escape of two characters produces one byte, so at most 1 byte may be written off for it; the six
    characters of \\uXXXX produce up to three bytes (U+0800..U+FFFF), so at most 3 - anything more and the decoder writes behind
    the allocation"""
    f = P.fn("cJSON.c:parse_string")
    skipped = None
    for i in f.all_insts():
        if i.op == "call" and not i.callee:
            t = P.term(f, i.a[0])
            for x in Q.subterms(t):
                if x[0] == "op" and x[1] == "sub" and x[2][1][0] == "phi" and Q.mentions(x[2][0], lambda y: y[0] == "op" and y[1] == "sub"):
                    skipped = x[2][1]
            if skipped is not None:
                break
    if skipped is None:
        raise AnalysisBroken("parse_string: allocation size 'scanned - skipped' not found")
    bad = None
    n = 0
    for i in f.all_insts():
        if i.op not in ("add", "sub"):
            continue
        t = P.term(f, i.id)
        if t[0] == "op" and t[2][0] == skipped and t[2][1][0] == "const":
            k = t[2][1][1] if t[1] == "add" else -t[2][1][1]
            n += 1
            is_u = Q.must_pass(P, f, i.block, lambda a, p: a[0] == "cmp" and a[3] == ("const", 117) and a[2][0] == "load" and Q._poleq(a, p))
            if k > (3 if is_u else 1) and bad is None:
                bad = (i, k, is_u)
    ctx.ob("C06.7 R-BOUND", f, "decoded-string-fits-its-allocation", bad is None and n >= 1,
           ("parse_string() writes %d input bytes off as producing no output for %s at %s; the decoder can produce %d: a string with "
            "several such escapes is decoded behind the end of its allocation" %
            (bad[1], "a \\uXXXX escape (6 characters, up to 3 bytes)" if bad[2] else "an escape (2 characters, 1 byte)", bad[0].loc,
             (6 - 3) if bad[2] else 1)) if bad else "%d accounting step(s), each within what the escape can shrink by" % n)


def run(ctx):
    for cfg in ctx.configs():
        P, cg = cfg.P, cfg.cg
        clause9_unmask(ctx, P)
        clause10_stack_arrays(ctx, P)
        clause11_no_narrowing(ctx, P)
        clause11b_bitfield_copies(ctx, P)
        clause12_valuestring(ctx, P)
        clause13_format_strings(ctx, P)
        clause14_signed_shifts(ctx, P)
        clause14b_literal_shifts(ctx, P)
        # use after release / double release / dangling members: the ownership rules of C07.1 are memory-safety rules as well
        from ..core.own import Own
        from . import c07
        own_ = Own(ctx, P, cg)
        c07.clause1_own(ctx, P, cg, own_)
        c07.clause13_freed_field_is_reassigned(ctx, P)
        c07.clause16_handed_over_items(ctx, P)
        clause1_snprintf(ctx, P)
        c16.clause6_slots(ctx, P, cg)
        c12.clause2_callbacks(ctx, P, cg)
        c09.clause1_parse(ctx, P)
        c09.clause1b_parser_bounds(ctx, P, cg)
        clause5_fptoui(ctx, P)
        clause6_copies(ctx, P, cg)
        c08.clause5_origin(ctx, P)
        clause8_epoll(ctx, P)
        clause17_null_with_zero_length(ctx, P, cg)
        clause18_decoded_string_fits(ctx, P)
        c14.clause3_batch(ctx, P, cg)
