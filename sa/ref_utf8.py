"""Reference automaton for well-formed UTF-8 (RFC 3629 section 4 / Unicode 3.9 table 3-7).
This table is the oracle of check C18; it is not derived from cjet."""

# (first-byte range, then the ranges of the continuation bytes)
TABLE_3_7 = [
    ((0x00, 0x7F), []),
    ((0xC2, 0xDF), [(0x80, 0xBF)]),
    ((0xE0, 0xE0), [(0xA0, 0xBF), (0x80, 0xBF)]),
    ((0xE1, 0xEC), [(0x80, 0xBF), (0x80, 0xBF)]),
    ((0xED, 0xED), [(0x80, 0x9F), (0x80, 0xBF)]),
    ((0xEE, 0xEF), [(0x80, 0xBF), (0x80, 0xBF)]),
    ((0xF0, 0xF0), [(0x90, 0xBF), (0x80, 0xBF), (0x80, 0xBF)]),
    ((0xF1, 0xF3), [(0x80, 0xBF), (0x80, 0xBF), (0x80, 0xBF)]),
    ((0xF4, 0xF4), [(0x80, 0x8F), (0x80, 0xBF), (0x80, 0xBF)]),
]

START = ()


def step(state, byte):
    """state: tuple of remaining continuation ranges (START = ()); returns next state or None (ill-formed)"""
    if state == START:
        for (lo, hi), rest in TABLE_3_7:
            if lo <= byte <= hi:
                return tuple(rest)
        return None
    (lo, hi) = state[0]
    if lo <= byte <= hi:
        return tuple(state[1:])
    return None
