"""Front end: /repo working tree -> whole-program LLVM IR -> facts JSON.

Nothing of cjet is executed.  The repository's own CMake configures a scratch
build directory (outside /repo and /verif), each translation unit is compiled
to IR with its compile-database flags (optimisation / fortify / NDEBUG
replaced, see DESIGN.md 2.1), the units are linked, mem2reg is applied and the
exporter (bin/ir2facts) dumps the facts.  Results are cached under
/verif/.cache/<tree hash>/<config>.json.
"""
import hashlib, json, os, shlex, shutil, subprocess, sys, tempfile, time
from concurrent.futures import ThreadPoolExecutor

VERIF = os.path.dirname(os.path.dirname(os.path.abspath(__file__)))
REPO = os.environ.get("CJET_REPO", "/repo")
CACHE = os.path.join(VERIF, ".cache")
IR2FACTS = os.path.join(VERIF, "bin", "ir2facts")

FRONTEND_VERSION = "6"   # bump when the exporter, the IR pipeline or what is stored next to the facts changes

CONFIGS = {
    "default": [],
    # (the message size is deliberately not a multiple of 8: sizes rounded for alignment then differ from the configured one)
    "localadd": ["-DCONFIG_ALLOW_ADD_ONLY_FROM_LOCALHOST=true",
                 "-DCONFIG_ELEMENT_TABLE_ORDER=3", "-DCONFIG_ROUTING_TABLE_ORDER=2", "-DCONFIG_MAX_MESSAGE_SIZE=510"],
    # thorough tier only
    "small": ["-DCONFIG_ELEMENT_TABLE_ORDER=2", "-DCONFIG_ROUTING_TABLE_ORDER=1",
              "-DCONFIG_MAX_MESSAGE_SIZE=64", "-DCONFIG_MAX_WRITE_BUFFER_SIZE=256",
              "-DCONFIG_MAX_NUMBERS_OF_MATCHERS_IN_FETCH=1", "-DCONFIG_INITIAL_FETCH_TABLE_SIZE=1"],
    "order5": ["-DCONFIG_ELEMENT_TABLE_ORDER=5", "-DCONFIG_ROUTING_TABLE_ORDER=5"],
    # plain char unsigned, as on the ARM and PowerPC targets the project ships toolchain files for (cmake/arm_gcc.cmake,
    # cmake/ppc_gcc.cmake); used by the rules that look at bytes of text (C18)
    "uchar": ["-DCMAKE_C_FLAGS=-funsigned-char"],
}
QUICK_CONFIGS = ["default", "localadd"]
THOROUGH_CONFIGS = ["default", "localadd", "small", "order5"]


class AnalysisBroken(Exception):
    pass


def tree_hash(repo=None):
    repo = repo or REPO
    h = hashlib.sha256()
    if repo != "/repo":
        h.update(repo.encode())   # the facts carry absolute paths: a tree at another place has its own cache entries
    roots = [os.path.join(repo, "src"), os.path.join(repo, "cmake")]
    files = [os.path.join(repo, "CMakeLists.txt")]
    for r in roots:
        for d, dn, fn in os.walk(r):
            dn.sort()
            if "/tests" in d[len(repo):] and False:
                continue
            for f in sorted(fn):
                files.append(os.path.join(d, f))
    for f in files:
        try:
            st = os.lstat(f)
            if not os.path.isfile(f) or os.path.islink(f):
                continue
            h.update(f[len(repo):].encode())
            with open(f, "rb") as fh:
                h.update(hashlib.sha256(fh.read()).digest())
        except OSError:
            pass
    with open(os.path.join(VERIF, "sa", "ir2facts.cc"), "rb") as fh:
        h.update(fh.read())
    with open(os.path.abspath(__file__), "rb") as fh:
        h.update(fh.read())
    return h.hexdigest()[:24]


def _run(cmd, **kw):
    p = subprocess.run(cmd, stdout=subprocess.PIPE, stderr=subprocess.STDOUT, **kw)
    return p.returncode, p.stdout.decode(errors="replace")


DROP_PREFIX = ("-O", "-D_FORTIFY_SOURCE", "-DNDEBUG", "-Werror", "-W", "-frandom-seed",
               "-fstack-protector", "-pedantic", "-g")


def _ir_cmd(entry, outdir, idx):
    args = shlex.split(entry["command"])
    out = []
    skip = False
    src = entry["file"]
    for a in args[1:]:
        if skip:
            skip = False
            continue
        if a == "-o":
            skip = True
            continue
        if a == "-c" or a == src:
            continue
        if a.startswith(DROP_PREFIX):
            continue
        out.append(a)
    ll = os.path.join(outdir, "%03d_%s.ll" % (idx, os.path.basename(src)))
    cmd = ["clang-14"] + out + ["-UNDEBUG", "-O0", "-Xclang", "-disable-O0-optnone", "-g", "-S",
                                 "-emit-llvm", "-w", "-o", ll, src]
    return cmd, ll


import re as _re
_MAC = _re.compile(r"^#define (\w+) (.+)$")
_SAFE = _re.compile(r"^[\s0-9a-fA-FxXuUlL()+\-*/<>|&~]+$")


def _parse_macros(text):
    raw = {}
    for line in text.splitlines():
        m = _MAC.match(line)
        if not m or m.group(1).startswith("__"):
            continue
        raw[m.group(1)] = m.group(2).strip()
    out = {}
    ident = _re.compile(r"\b[A-Za-z_]\w*\b")

    def resolve(name, depth=0):
        if name in out:
            return out[name]
        v = raw.get(name)
        if v is None or depth > 8:
            return None
        if v.startswith('"') and v.endswith('"') and len(v) >= 2 and '"' not in v[1:-1]:
            out[name] = v[1:-1]
            return out[name]
        e = _re.sub(r"(?<=[0-9a-fA-F])[uUlL]+\b", "", v)
        bad = []

        def sub(mm):
            w = mm.group(0)
            if _re.match(r"^0[xX][0-9a-fA-F]+$", w):
                return w
            r = resolve(w, depth + 1)
            if isinstance(r, int):
                return "(%d)" % r
            bad.append(w)
            return w
        e2 = ident.sub(sub, e)
        if bad or not _SAFE.match(e2):
            return None
        e2 = _re.sub(r"(?<![0-9a-zA-Z.])0([0-7]+)\b", r"0o\1", e2)  # C octal literals
        try:
            val = eval(e2, {"__builtins__": {}}, {})
        except Exception:
            return None
        if isinstance(val, int):
            out[name] = val
            return val
        return None
    for n in list(raw):
        resolve(n)
    return out


def build_facts(config="default", repo=None, keep=False, verbose=False):
    """Returns path of the facts JSON for (current tree, config)."""
    repo = repo or REPO
    th = tree_hash(repo)
    cdir = os.path.join(CACHE, th)
    # the cache entry is named after the configuration's definition too (and the front end's version): editing CONFIGS or the
    # exporter must not be answered from facts built before
    tag = hashlib.sha256((FRONTEND_VERSION + "|" + " ".join(CONFIGS[config])).encode()).hexdigest()[:8]
    out = os.path.join(cdir, "%s-%s.json" % (config, tag))
    if os.path.exists(out):
        return out
    if not os.path.exists(IR2FACTS):
        raise AnalysisBroken("exporter %s missing: run setup_cmd (./setup.sh)" % IR2FACTS)
    os.makedirs(cdir, exist_ok=True)
    scratch = tempfile.mkdtemp(prefix="cjet-sa-")
    t0 = time.time()
    try:
        b = os.path.join(scratch, "b")
        rc, log = _run(["cmake", "-S", repo, "-B", b, "-G", "Ninja", "-DCMAKE_EXPORT_COMPILE_COMMANDS=ON",
                        "-DFEATURE_POST_BUILD_UNITTEST=OFF", "-DCMAKE_C_COMPILER=clang-14"] + CONFIGS[config])
        if rc != 0:
            raise AnalysisBroken("cmake configure failed:\n" + log[-2000:])
        db = json.load(open(os.path.join(b, "compile_commands.json")))
        seen = set()
        units = []
        for e in db:
            if e["file"] in seen:
                continue
            seen.add(e["file"])
            units.append(e)
        if len(units) < 40:
            raise AnalysisBroken("compile database has only %d units (expected >= 40)" % len(units))
        ird = os.path.join(scratch, "ir")
        os.makedirs(ird)
        jobs = [_ir_cmd(e, ird, i) for i, e in enumerate(units)]

        def comp(j):
            return _run(j[0], cwd=b)
        with ThreadPoolExecutor(max_workers=16) as ex:
            res = list(ex.map(comp, jobs))
        for (rc, log), (cmd, ll) in zip(res, jobs):
            if rc != 0:
                raise AnalysisBroken("IR compile failed: %s\n%s" % (" ".join(cmd), log[-3000:]))
        # object-like integer macros per unit (clang -dM -E): the rules take protocol constants
        # (error codes, cJSON type tags, close codes) from the tree, never from a frozen copy
        def macros(j):
            cmd = [a for a in j[0] if a not in ("-S", "-emit-llvm")]
            k = cmd.index("-o")
            cmd = cmd[:k] + cmd[k + 2:]
            src = cmd.pop()
            rc, out = _run(cmd + ["-dM", "-E", src], cwd=b)
            return _parse_macros(out) if rc == 0 else {}
        with ThreadPoolExecutor(max_workers=16) as ex:
            mres = list(ex.map(macros, jobs))
        macro_tab = {os.path.basename(e["file"]): m for e, m in zip(units, mres)}
        # the configuration enumerators of the generated headers (enum {CONFIG_X = n};): clang emits debug info only for the
        # enumerations a unit uses as a type, so a configuration value can vanish from the DI although it shapes the code
        import glob, re
        cfgen = {}
        for h in glob.glob(os.path.join(b, "**", "generated", "*.h"), recursive=True):
            try:
                for m_ in re.finditer(r"enum\s*\{\s*(\w+)\s*=\s*(-?\d+)\s*\}", open(h).read()):
                    cfgen[m_.group(1)] = int(m_.group(2))
            except OSError:
                pass
        macro_tab["__config__"] = cfgen
        # syntax-tree lints (clang-query over the compilation database) for what the IR cannot show: the signedness of a
        # shifted operand. The matches are stored with the facts; sa/lints/positive.c must match on every run.
        lq = os.path.join(VERIF, "sa", "lints", "shift.cq")

        def lint(e):
            rc, qout = _run(["clang-query-14", "-p", b, "-f", lq, e["file"]], cwd=b)
            if rc != 0:
                return None
            return [l.split(": note:")[0] for l in qout.splitlines() if 'note: "root" binds here' in l]
        with ThreadPoolExecutor(max_workers=16) as ex:
            lres = list(ex.map(lint, units))
        if any(r is None for r in lres):
            raise AnalysisBroken("clang-query failed on a unit")
        rc, pout = _run(["clang-query-14", "-f", lq, os.path.join(VERIF, "sa", "lints", "positive.c"), "--", "-std=gnu99"])
        npos = sorted(int(l.split(":")[1]) for l in pout.splitlines() if 'note: "root" binds here' in l and "positive.c:" in l)
        rel = lambda x: os.path.relpath(x.split(":")[0], repo) + ":" + ":".join(x.split(":")[1:])
        lq2 = os.path.join(VERIF, "sa", "lints", "shift_var.cq")

        def lint2(e):
            rc, qout = _run(["clang-query-14", "-p", b, "-f", lq2, e["file"]], cwd=b)
            if rc != 0:
                return None
            return [l.split(": note:")[0] for l in qout.splitlines() if 'note: "root" binds here' in l]
        with ThreadPoolExecutor(max_workers=16) as ex:
            lres2 = list(ex.map(lint2, units))
        if any(r is None for r in lres2):
            raise AnalysisBroken("clang-query failed on a unit")
        rc, pout2 = _run(["clang-query-14", "-f", lq2, os.path.join(VERIF, "sa", "lints", "positive.c"), "--", "-std=gnu99"])
        npos2 = sorted(int(l.split(":")[1]) for l in pout2.splitlines() if 'note: "root" binds here' in l and "positive.c:" in l)
        macro_tab["__lints__"] = {"shift": sorted(set(rel(x) for r in lres for x in r)), "shift_positive": npos,
                                  "shift_var": sorted(set(rel(x) for r in lres2 for x in r)), "shift_var_positive": npos2}
        linked = os.path.join(scratch, "all.bc")
        rc, log = _run(["llvm-link-14", "-o", linked] + [j[1] for j in jobs])
        if rc != 0:
            raise AnalysisBroken("llvm-link failed:\n" + log[-3000:])
        m2r = os.path.join(scratch, "all.m2r.bc")
        rc, log = _run(["opt-14", "-passes=mem2reg", "-o", m2r, linked])
        if rc != 0:
            raise AnalysisBroken("opt mem2reg failed:\n" + log[-3000:])
        tmp = out + ".tmp%d" % os.getpid()
        rc, log = _run([IR2FACTS, m2r, tmp])
        if rc != 0:
            raise AnalysisBroken("ir2facts failed:\n" + log[-3000:])
        # attach meta
        with open(tmp + ".macros", "w") as fh:
            json.dump(macro_tab, fh)
        os.replace(tmp + ".macros", out + ".macros")
        meta = {"config": config, "cmake_defs": CONFIGS[config], "units": [e["file"] for e in units],
                "tree_hash": th, "build_s": round(time.time() - t0, 2)}
        with open(tmp + ".meta", "w") as fh:
            json.dump(meta, fh)
        os.replace(tmp + ".meta", out + ".meta")
        os.replace(tmp, out)
        if verbose:
            print("facts[%s] built in %.1fs" % (config, time.time() - t0), file=sys.stderr)
    finally:
        if not keep:
            shutil.rmtree(scratch, ignore_errors=True)
    _prune_cache(th)
    return out


def _prune_cache(keep_hash, maxdirs=6, min_age_s=1800):
    """keep the newest entries; never remove one that was touched in the last half hour (a check running in parallel on
    another tree may be reading it)"""
    try:
        ds = [os.path.join(CACHE, d) for d in os.listdir(CACHE)]
        ds = [d for d in ds if os.path.isdir(d)]
        ds.sort(key=lambda d: os.path.getmtime(d))
        now = time.time()
        while len(ds) > maxdirs:
            d = ds.pop(0)
            if os.path.basename(d) != keep_hash and now - os.path.getmtime(d) > min_age_s:
                shutil.rmtree(d, ignore_errors=True)
    except OSError:
        pass


def load_facts(config="default", repo=None):
    p = build_facts(config, repo)
    try:
        os.utime(os.path.dirname(p))
    except OSError:
        pass
    try:
        with open(p) as fh:
            facts = json.load(fh)
    except (OSError, ValueError):
        p = build_facts(config, repo)   # removed or half-written by a parallel run: build again
        with open(p) as fh:
            facts = json.load(fh)
    with open(p + ".meta") as fh:
        facts["meta"] = json.load(fh)
    with open(p + ".macros") as fh:
        facts["macros"] = json.load(fh)
    return facts


if __name__ == "__main__":
    cfgs = sys.argv[1:] or QUICK_CONFIGS
    for c in cfgs:
        t = time.time()
        p = build_facts(c, verbose=True)
        print(c, p, os.path.getsize(p), "%.1fs" % (time.time() - t))
