"""Check context: configurations, obligations, known findings, evidence, exit protocol."""
import json, os, sys, time

from .frontend import (AnalysisBroken, QUICK_CONFIGS, THOROUGH_CONFIGS, load_facts, VERIF, REPO)
from .core.program import Program, fmt_atom, fmt_term
from .core.callgraph import CallGraph
from .core.inline import inline_all, keep_names, lower_selects

KNOWN_FILE = os.path.join(VERIF, "known_findings.json")
EVIDENCE_DIR = os.environ.get("CJET_EVIDENCE_DIR") or os.path.join(VERIF, "evidence")
REPLAY_DIR = os.path.join(EVIDENCE_DIR, "replay")

TRUSTED_BASE = [
    "clang-14 front end and its -O0 code generation (source-level structure is what the rules talk about; "
    "the shipped -O3 binary is not analysed)",
    "llvm-link-14, opt-14 -passes=mem2reg",
    "sa/ir2facts.cc exporter and the role bindings in the rule modules",
]


class Config:
    def __init__(self, name):
        self.name = name
        facts = load_facts(name)
        if os.environ.get("CJET_SA_NO_INLINE") != "1":
            lower_selects(facts)
            self.inlined = inline_all(facts, keep_names(VERIF))
        else:
            self.inlined = []
        self.P = Program(facts)
        self.cg = CallGraph(self.P)
        bad = [i for i in self.cg.unresolved if self.P.own(i.fn)]
        if bad:
            raise AnalysisBroken("unresolved indirect call(s) in own code: " + ", ".join(repr(i) for i in bad))


class Ctx:
    def __init__(self, prop, tier="quick"):
        self.prop = prop
        self.tier = tier
        self.t0 = time.time()
        self.obligations = {}  # key -> record
        self.order = []
        self.floors = {}
        self.stats = {"functions_analysed": set(), "paths_enumerated": 0, "call_sites": 0}
        self.notes = []
        self.config_names = THOROUGH_CONFIGS if tier == "thorough" else QUICK_CONFIGS
        self.loop_iters = 2 if tier == "thorough" else 1
        self._configs = {}
        self.cur = None

    def configs(self, names=None):
        for n in (names or self.config_names):
            if n not in self._configs:
                self._configs[n] = Config(n)
            self.cur = self._configs[n]
            yield self.cur
        self.cur = None

    # ---- obligations ----
    def ob(self, rule, fn, site, ok, what, witness=None, nontrivial=True, detail=None):
        """record an obligation. key = rule|function|site (no line numbers)."""
        fkey = fn.key if hasattr(fn, "key") else str(fn)
        key = "%s|%s|%s" % (rule, fkey, site)
        cfg = self.cur.name if self.cur else "-"
        rec = self.obligations.get(key)
        if rec is None:
            rec = {"key": key, "rule": rule, "function": fkey, "site": site, "what": what,
                   "status": "discharged", "configs": [], "nontrivial": bool(nontrivial)}
            if hasattr(fn, "file") and fn.file:
                rec["where"] = "%s:%d" % (os.path.relpath(fn.file, REPO), fn.line)
            self.obligations[key] = rec
            self.order.append(key)
        if cfg not in rec["configs"]:
            rec["configs"].append(cfg)
        if not ok:
            rec["status"] = "violated"
            rec["what"] = what
            if witness:
                rec["witness"] = witness
            if detail:
                rec["detail"] = detail
        elif detail and "detail" not in rec:
            rec["detail"] = detail
        if hasattr(fn, "key"):
            self.stats["functions_analysed"].add(fkey)
        return ok

    def floor(self, rule, n, why=""):
        self.floors[rule] = (n, why)

    def broken(self, msg):
        """one rule could not be evaluated; the other rules still run. Reported as 'analysis broken' (exit 2) at the end -
        unless another rule reports a violation, which is a verdict (exit 1)."""
        if not hasattr(self, "deferred_broken"):
            self.deferred_broken = []
        self.deferred_broken.append(msg)

    def count(self, what, n=1):
        self.stats[what] = self.stats.get(what, 0) + n

    def fn_seen(self, f):
        self.stats["functions_analysed"].add(f.key)

    def note(self, s):
        self.notes.append(s)


def witness_path(P, f, path, upto_block=None):
    """render a block path as list of 'file:line cond' strings"""
    out = []
    for (b, atom, pol) in path:
        t = f.term_inst(b)
        if atom is not None:
            out.append("%s [%s]" % (f.blocks[b][0].loc, fmt_atom(atom, pol)))
        if upto_block is not None and b == upto_block:
            break
    return out[:40]


def _added(prop):
    try:
        from .props.added import ADDED
    except ImportError:
        return ""
    t = ADDED.get(prop)
    return (" ADDED AFTER THE LATER ROUNDS OF SEEDED CHANGES: " + t) if t else ""


def load_known():
    if not os.path.exists(KNOWN_FILE):
        return []
    with open(KNOWN_FILE) as fh:
        return json.load(fh).get("findings", [])


def finish(ctx, meta):
    """evaluate floors, match known findings, write evidence, print, return exit code."""
    prop = ctx.prop
    known = [k for k in load_known() if k.get("property") == prop]
    known_active = {k["key"]: k for k in known if k.get("status") == "known"}
    broken = list(getattr(ctx, "deferred_broken", []))
    per_rule = {}
    for key in ctx.order:
        r = ctx.obligations[key]
        per_rule[r["rule"]] = per_rule.get(r["rule"], 0) + 1
    for rule, (n, why) in ctx.floors.items():
        if per_rule.get(rule, 0) < n:
            broken.append("rule %s matched %d instance(s), floor confirmed by hand is %d%s" %
                          (rule, per_rule.get(rule, 0), n, (" (" + why + ")") if why else ""))
    violated = [ctx.obligations[k] for k in ctx.order if ctx.obligations[k]["status"] == "violated"]
    new = [v for v in violated if v["key"] not in known_active]
    matched = [v for v in violated if v["key"] in known_active]
    os.makedirs(REPLAY_DIR, exist_ok=True)
    lines = []
    for v in matched:
        lines.append("KNOWN-FINDING: property=%s %s [%s]" % (prop, known_active[v["key"]].get("what", v["what"]), v["key"]))
    replay_paths = []
    for n, v in enumerate(new):
        rp = os.path.join(REPLAY_DIR, "%s-%d.json" % (prop, n))
        with open(rp, "w") as fh:
            json.dump({"property": prop, "obligation": v, "tier": ctx.tier,
                       "howto": "./check %s --replay %s" % (prop, rp)}, fh, indent=1)
        replay_paths.append(rp)
        lines.append("VIOLATION property=%s replay=%s" % (prop, rp))
        lines.append("  rule %s in %s at %s: %s" % (v["rule"], v["function"], v.get("where", "?"), v["what"]))
        for w in v.get("witness", [])[:12]:
            lines.append("    " + w)
    total = len(ctx.order)
    discharged = total - len(violated)
    samples = []
    seen_rules = set()
    for k in ctx.order:
        r = ctx.obligations[k]
        if r["rule"] not in seen_rules or r["status"] == "violated":
            seen_rules.add(r["rule"])
            s = {kk: r[kk] for kk in ("rule", "function", "site", "what", "status", "configs") if kk in r}
            if "witness" in r:
                s["witness"] = r["witness"][:8]
            if "detail" in r:
                s["detail"] = r["detail"]
            samples.append(s)
    samples = samples[:60]
    wall = time.time() - ctx.t0
    ev = {
        "property_id": prop,
        "tier": ctx.tier,
        "seed": int(os.environ.get("VERIF_SEED", "0") or 0),
        "level": "other",
        "coverage": {
            "explanation": meta["explanation"] + _added(prop),
            "not_decided": meta.get("not_decided", ""),
            "rule": "static analysis: one obligation per (rule, function, site role); an obligation is non-trivial when "
                    "discharging it needed a path/guard/dataflow argument rather than mere presence of an anchor",
            "evaluations": total,
            "distinct_nontrivial": sum(1 for k in ctx.order if ctx.obligations[k]["nontrivial"]),
            "obligations": total,
            "discharged": discharged,
            "violated_known": len(matched),
            "violated_new": len(new),
            "obligations_per_rule": per_rule,
            "floors": {k: v[0] for k, v in ctx.floors.items()},
            "samples": samples,
            "functions_analysed": sorted(ctx.stats["functions_analysed"]),
            "n_functions_analysed": len(ctx.stats["functions_analysed"]),
            "paths_enumerated": ctx.stats.get("paths_enumerated", 0),
            "call_sites": ctx.stats.get("call_sites", 0),
            "configurations": list(ctx._configs.keys()),
            "loop_unrolling": ctx.loop_iters,
            "known_findings_matched": [v["key"] for v in matched],
            "notes": ctx.notes,
            "checker_cmd": "./check %s --tier %s" % (prop, ctx.tier),
            "trusted_base": TRUSTED_BASE + meta.get("trusted_base", []),
            "exhaustive": False,
            "analysis_broken": broken,
        },
        "assumptions": meta.get("assumptions", []) + [
            "rules are necessary conditions of the property (structural clauses), not the behavioural statement itself",
            "the analysed program is the -O0 IR of the current /repo working tree under the listed configurations",
        ],
        "wall_s": round(wall, 3),
        "violations": len(new),
    }
    os.makedirs(EVIDENCE_DIR, exist_ok=True)
    with open(os.path.join(EVIDENCE_DIR, prop + ".json"), "w") as fh:
        json.dump(ev, fh, indent=1)
    print("%s [%s]: %d obligations, %d discharged, %d known finding(s), %d new violation(s); configs=%s; %.1fs" %
          (prop, ctx.tier, total, discharged, len(matched), len(new), ",".join(ctx._configs.keys()), wall))
    for rule, n in sorted(per_rule.items()):
        print("  %-28s %d" % (rule, n))
    for l in lines:
        print(l)
    if broken:
        for b in broken:
            print("ANALYSIS-BROKEN: " + b)
        # a violated obligation is a verdict even when, as a consequence of the same change, a rule also matched fewer
        # instances than its floor; a floor failure alone is 'analysis broken'
        return 1 if new else 2
    return 1 if new else 0
