#!/bin/sh
# tools/prefac.sh <dir with patch.diff> : a behaviour-preserving change: must build, keep ctest green, and leave all 20 checks silent.
d=$(cd "$1" && pwd)
tag=$(echo "$d" | tr '/' '_')
wt=/var/tmp/wtf$tag; ev=/var/tmp/evf$tag; out=$d/.prefac.out
{
  echo "#### $d"
  ok=0; for try in 1 2 3 4 5 6 7 8; do git -C /repo worktree add --detach $wt HEAD >/dev/null 2>&1 && { ok=1; break; }; sleep 1; git -C /repo worktree prune >/dev/null 2>&1; done
  [ $ok = 1 ] || { echo "WORKTREE FAILED"; exit 0; }
  if git -C $wt apply "$d/patch.diff" 2>/dev/null; then
    if cmake -S $wt -B $wt/_t -G Ninja >/dev/null 2>&1 && cmake --build $wt/_t >/dev/null 2>&1; then
      echo "tests: $(ctest --test-dir $wt/_t -j8 --timeout 900 2>&1 | grep 'tests passed' | tr -d '\n')"
    else echo "tests: BUILD FAILED"; fi
    rm -rf $wt/_t
    mkdir -p $ev
    for p in C01 C02 C03 C04 C05 C06 C07 C08 C09 C10 C11 C12 C13 C14 C15 C16 C17 C18 C19 C20; do
      o=$(CJET_REPO=$wt CJET_EVIDENCE_DIR=$ev timeout 900 /verif/check $p 2>&1); rc=$?
      if [ $rc -ne 0 ]; then echo "== $p exit=$rc"; echo "$o" | grep -E "^  rule|ANALYSIS-BROKEN" | cut -c1-300; fi
    done
  else
    echo "PATCH DOES NOT APPLY"
  fi
  git -C /repo worktree remove --force $wt >/dev/null 2>&1; rm -rf $ev
} > "$out" 2>&1
cat "$out"
