#!/bin/sh
# tools/mut.sh '<sed expression>' <file relative to /repo> <PROP>...   -- applies a one-line mutation, runs checks, reverts
expr="$1"; file="$2"; shift 2
cd /repo || exit 2
git diff --quiet -- src || { echo "repo working tree not clean"; exit 2; }
sed -i "$expr" "$file"
if git diff --quiet -- "$file"; then echo "MUTATION DID NOT APPLY"; exit 2; fi
git diff -U0 -- "$file" | grep '^[+-][^+-]' | head -6
cd /verif
for p in "$@"; do ./check $p 2>&1 | grep -E "^C[0-9]+ \[|VIOLATION|ANALYSIS-BROKEN|^  rule" | cut -c1-260; done
git -C /repo checkout -- src
