#!/usr/bin/env python3
"""Parallel regression over all kept seeded changes: each is applied in a private worktree and the checks recorded for it
(or, with --all-own, its own property's check as well) are run; prints seeds that are no longer reported."""
import glob, json, subprocess, sys
from concurrent.futures import ThreadPoolExecutor
def one(m):
    j = json.load(open(m))
    if j.get("obsolete"):
        return (j["id"], None, ["obsolete"])
    checks = sorted(set(d["check"] for d in j.get("detected_by", []) if d["exit"] == 1))
    if not checks:
        return (j["id"], None, [])
    out = subprocess.run(["/verif/tools/pcheck.sh", m.replace("meta.json", "patch.diff")] + checks, stdout=subprocess.PIPE, stderr=subprocess.STDOUT).stdout.decode()
    fired = [l.split()[1] for l in out.splitlines() if l.startswith("== ") and l.endswith("exit=1")]
    if "WORKTREE FAILED" in out or "DOES NOT APPLY" in out:
        fired = ["INFRA:" + out.strip()[:60]]
    return (j["id"], checks, fired)
metas = sorted(glob.glob("/verif/seeded/*/meta.json"))
bad = 0
with ThreadPoolExecutor(max_workers=int(sys.argv[1]) if len(sys.argv) > 1 else 6) as ex:
    for sid, checks, fired in ex.map(one, metas):
        if checks is None:
            print(sid, "obsolete (no longer breaks the property on the repaired tree)" if fired == ["obsolete"] else "no detector recorded"); continue
        infra = bool(fired) and fired[0].startswith("INFRA:")
        if not fired or infra:
            bad += 1
        print(sid, "DOES-NOT-APPLY" if infra else ("ok" if fired else "REGRESSION"), checks, "->", fired, flush=True)
print("regressions:", bad)
sys.exit(1 if bad else 0)
