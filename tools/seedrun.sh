#!/bin/sh
# tools/seedrun.sh <patch.diff> [PROP...]  : apply a seeded change to /repo, run the checks, undo. Prints one line per check that fires.
patch="$1"; shift
props="$@"; [ -z "$props" ] && props="C01 C02 C03 C04 C05 C06 C07 C08 C09 C10 C11 C12 C13 C14 C15 C16 C17 C18 C19 C20"
cd /repo || exit 2
git diff --quiet -- src || { echo "repo working tree not clean"; exit 2; }
git apply "$patch" || { echo "PATCH DOES NOT APPLY"; exit 2; }
cd /verif
for p in $props; do
  [ -f sa/props/$(echo $p | tr A-Z a-z).py ] || continue
  out=$(timeout 900 ./check $p 2>&1); rc=$?
  if [ $rc -ne 0 ]; then echo "== $p exit=$rc"; echo "$out" | grep -E "^  rule|ANALYSIS-BROKEN" | cut -c1-280; fi
done
git -C /repo checkout -- src
