#!/usr/bin/env python3
"""tools/store_seed.py <src dir> <seed id> <property> <caught_initially: yes|no> [note]
copies a confirmed seeded change into /verif/seeded/<id>/ and records which checks detect it now."""
import json, os, re, shutil, subprocess, sys
args = [a for a in sys.argv[1:] if not a.startswith("--log=")]
logs = [a[6:] for a in sys.argv[1:] if a.startswith("--log=")]
src, sid, prop, initially = args[0:4]
note = args[4] if len(args) > 4 else ""
dst = os.path.join("/verif/seeded", sid)
os.makedirs(dst, exist_ok=True)
for fn in os.listdir(src):
    p = os.path.join(src, fn)
    if os.path.isfile(p) and os.path.getsize(p) < 300000 and not fn.endswith((".log", ".o")):
        shutil.copy(p, os.path.join(dst, fn))
conf = None
import glob
for log in sorted(glob.glob("/tmp/seed/confirm*.log")):
    if os.path.exists(log):
        for l in open(log):
            try:
                j = json.loads(l)
            except Exception:
                continue
            if j.get("seed") == src.rstrip("/"):
                conf = j
if logs:
    # output of an earlier tools/run_seeds_dir.sh run: take this seed's section
    txt = open(logs[0]).read()
    key = "#### " + src.rstrip("/") + "\n"
    out = txt.split(key, 1)[1].split("#### ", 1)[0] if key in txt else ""
    if key not in txt:
        sys.exit("no section for %s in %s" % (src, logs[0]))
else:
    out = subprocess.run(["/verif/tools/seedrun.sh", os.path.join(src, "patch.diff")], stdout=subprocess.PIPE, stderr=subprocess.STDOUT).stdout.decode()
if conf is None:
    for l in out.splitlines():
        if l.startswith("{") and '"seed"' in l:
            try:
                conf = json.loads(l)
            except Exception:
                pass
det = []
cur = None
for l in out.splitlines():
    m = re.match(r"== (C\d+) exit=(\d+)", l)
    if m:
        cur = {"check": m.group(1), "exit": int(m.group(2)), "reports": []}
        det.append(cur)
    elif cur is not None and l.strip().startswith("rule"):
        cur["reports"].append(l.strip()[:240])
notes = open(os.path.join(src, "NOTES.md")).read() if os.path.exists(os.path.join(src, "NOTES.md")) else ""
first = notes.strip().splitlines()[0] if notes.strip() else ""
meta = {
    "id": sid, "property": prop, "title": first.lstrip("# ").strip(),
    "breaks": "see NOTES.md (written by the independent sub-agent that produced the change from the property text only)",
    "needs_to_manifest": "see NOTES.md",
    "confirmed": conf, "confirmed_how": "tools/confirm_seed.sh: scratch worktree of /repo HEAD; run.sh exits 0 on HEAD and 1 with patch.diff applied; "
                                        "cmake+ninja build and ctest (23 targets / 251 Boost cases) green with the patch",
    "detected_by": det, "detected": any(d["exit"] == 1 for d in det),
    "caught_before_any_rule_change": initially == "yes", "note": note,
    "how_to_run": "git -C /repo apply seeded/%s/patch.diff && ./check %s ; git -C /repo checkout -- ." % (sid, prop),
}
json.dump(meta, open(os.path.join(dst, "meta.json"), "w"), indent=1)
print(sid, "detected" if meta["detected"] else "MISSED", [d["check"] for d in det if d["exit"] == 1])
