#!/bin/sh
# tools/confirm_seed.sh <seed dir with patch.diff run.sh> : confirms in a scratch worktree that the change compiles, keeps the
# unit tests green, and that the demonstration fails with it and passes without it. Prints a JSON line; removes the worktree.
d="$1"; name=$(echo "$d" | tr '/' '_')
wt=/tmp/wt-confirm-$name
git -C /repo worktree remove --force $wt >/dev/null 2>&1
ok=0; for try in 1 2 3 4 5 6 7 8; do git -C /repo worktree add --detach $wt HEAD >/dev/null 2>&1 && { ok=1; break; }; sleep 1; git -C /repo worktree prune >/dev/null 2>&1; done
[ $ok = 1 ] || { echo "{\"seed\":\"$d\",\"error\":\"worktree\"}"; exit 1; }
base_rc=99; mut_rc=99; tests="not run"; applies=no
if [ -x "$d/run.sh" ]; then ( cd "$d" && ./run.sh $wt >/tmp/confirm-$name-base.log 2>&1 ); base_rc=$?; fi
if git -C $wt apply "$d/patch.diff" 2>/dev/null; then
  applies=yes
  if [ -x "$d/run.sh" ]; then ( cd "$d" && ./run.sh $wt >/tmp/confirm-$name-mut.log 2>&1 ); mut_rc=$?; fi
  if cmake -S $wt -B $wt/_t -G Ninja >/dev/null 2>&1 && cmake --build $wt/_t >/tmp/confirm-$name-build.log 2>&1; then
    tests=$(ctest --test-dir $wt/_t -j8 --timeout 900 2>&1 | grep "tests passed" | tr -d '\n')
  else tests="BUILD FAILED"; fi
fi
rm -rf $wt/_t $wt/_b
git -C /repo worktree remove --force $wt >/dev/null 2>&1
echo "{\"seed\":\"$d\",\"applies\":\"$applies\",\"demo_on_head\":$base_rc,\"demo_with_change\":$mut_rc,\"tests\":\"$tests\"}"
