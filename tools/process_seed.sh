#!/bin/sh
# tools/process_seed.sh <seed dir> : confirm a sub-agent's change in a scratch worktree (appends the JSON line to
# /tmp/seed/confirm-r3.log), then run all 20 checks on it. Nothing is stored; use tools/store_seed.py afterwards.
d=$(cd "$1" && pwd)
[ -x "$d/run.sh" ] || chmod +x "$d/run.sh" 2>/dev/null
/verif/tools/confirm_seed.sh "$d" | tee -a /tmp/seed/confirm-r3.log
/verif/tools/seedrun.sh "$d/patch.diff"
