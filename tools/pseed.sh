#!/bin/sh
# tools/pseed.sh <seed dir> : confirm a change (demo on HEAD / with change, ctest) and run all 20 checks on it, all in private
# worktrees - /repo's working tree and /verif/evidence are not touched, so several of these can run in parallel.
d=$(cd "$1" && pwd)
tag=$(echo "$d" | tr '/' '_')
wt=/var/tmp/wtp$tag
ev=/var/tmp/evp$tag
out=$d/.pseed.out
[ -x "$d/run.sh" ] || chmod +x "$d/run.sh" 2>/dev/null
{
  echo "#### $d"
  /verif/tools/confirm_seed.sh "$d"
  git -C /repo worktree remove --force $wt >/dev/null 2>&1
  ok=0; for try in 1 2 3 4 5 6 7 8; do git -C /repo worktree add --detach $wt HEAD >/dev/null 2>&1 && { ok=1; break; }; sleep 1; git -C /repo worktree prune >/dev/null 2>&1; done
  [ $ok = 1 ] || { echo "WORKTREE FAILED"; exit 0; }
  if git -C $wt apply "$d/patch.diff" 2>/dev/null; then
    mkdir -p $ev
    for p in C01 C02 C03 C04 C05 C06 C07 C08 C09 C10 C11 C12 C13 C14 C15 C16 C17 C18 C19 C20; do
      o=$(CJET_REPO=$wt CJET_EVIDENCE_DIR=$ev timeout 900 ${VERIF_CHECK:-/verif/check} $p 2>&1); rc=$?
      if [ $rc -ne 0 ]; then echo "== $p exit=$rc"; echo "$o" | grep -E "^  rule|ANALYSIS-BROKEN" | cut -c1-280; fi
    done
  else
    echo "PATCH DOES NOT APPLY"
  fi
  git -C /repo worktree remove --force $wt >/dev/null 2>&1
  rm -rf $ev
} > "$out" 2>&1
cat "$out"
