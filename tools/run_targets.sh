#!/bin/sh
# tools/run_targets.sh <targets file: "<PROP>/<k> CHECK..." per line> <seed root> : runs the named checks on each change
while read s props; do echo "#### $2/$s"; /verif/tools/seedrun.sh $2/$s/patch.diff $props; done < "$1"
