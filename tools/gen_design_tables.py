#!/usr/bin/env python3
"""Regenerates the generated tables of DESIGN.md (findings dispositions, seeded changes) from known_findings.json and seeded/*/meta.json."""
import json, os, glob, re
s = open("/verif/DESIGN.md").read()
kf = json.load(open("/verif/known_findings.json"))["findings"]
rows = {}
for f in kf:
    k = (f.get("commit"), f["what"][:60])
    r = rows.setdefault(f.get("commit") or f["what"], {"props": [], "what": f["what"], "status": f["status"], "commit": f.get("commit"), "replay": f.get("replay"), "keys": f.get("keys", [])})
    if f["property"] not in r["props"]:
        r["props"].append(f["property"])
    if len(f["what"]) > len(r["what"]):
        r["what"] = f["what"]
    for k2 in f.get("keys", []):
        if k2 not in r["keys"]:
            r["keys"].append(k2)
t = ["| properties | status | commit | what failed on the pinned tree | replay | rule instances that report it |", "|---|---|---|---|---|---|"]
for r in rows.values():
    t.append("| %s | %s | `%s` | %s | `%s` | %s |" % (", ".join(sorted(r["props"])), r["status"], r["commit"] or "-", r["what"].replace("|", "/"), r["replay"] or "-",
                                                   "; ".join("`%s`" % k for k in r["keys"]) or "(found by reading while writing the rule; covered by the rule of the property now)"))
ft = "\n".join(t)
t = ["| seed | property | what the change does (sub-agent's title) | needs | confirmed (demo HEAD/changed, tests) | detected by | caught before any rule change |", "|---|---|---|---|---|---|---|"]
n = det = first = 0
for m in sorted(glob.glob("/verif/seeded/*/meta.json")):
    j = json.load(open(m))
    n += 1
    det += 1 if j["detected"] else 0
    first += 1 if j.get("caught_before_any_rule_change") else 0
    c = j.get("confirmed") or {}
    dets = ", ".join(sorted(set("%s" % d["check"] for d in j["detected_by"] if d["exit"] == 1))) or "**missed**"
    if j.get("obsolete"):
        dets = "(obsolete: " + j["obsolete"] + ") formerly " + dets
    rules = sorted(set(re.search(r"rule (\S+ \S+)", r).group(1) for d in j["detected_by"] for r in d["reports"] if re.search(r"rule (\S+ \S+)", r)))
    t.append("| %s | %s | %s | see `seeded/%s/NOTES.md` | %s/%s, %s | %s (%s) | %s%s |" % (
        j["id"], j["property"], j["title"].replace("|", "/")[:140], j["id"], c.get("demo_on_head"), c.get("demo_with_change"),
        "tests green" if "100% tests passed" in (c.get("tests") or "") else (c.get("tests") or "?"), dets, "; ".join(rules)[:160],
        "yes" if j.get("caught_before_any_rule_change") else "no", (" - " + j["note"]) if j.get("note") else ""))
st = "\n".join(t) + "\n\nTotals: %d seeded changes kept, %d detected by the current checks, %d of them were detected before any rule was changed in response to a seed.\n" % (n, det, first)
for name, body in (("FINDINGS", ft), ("SEEDS", st)):
    b, e = "<!-- %s-BEGIN -->" % name, "<!-- %s-END -->" % name
    if b in s:
        s = s[:s.index(b) + len(b)] + "\n" + body + "\n" + s[s.index(e):]
open("/verif/DESIGN.md", "w").write(s)
print("findings rows:", len(rows), "seeds:", n, det, first)
