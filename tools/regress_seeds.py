#!/usr/bin/env python3
"""Re-runs every kept seeded change against the checks that are recorded to detect it; prints regressions."""
import glob, json, subprocess, sys
bad = 0
for m in sorted(glob.glob("/verif/seeded/*/meta.json")):
    j = json.load(open(m))
    checks = sorted(set(d["check"] for d in j["detected_by"] if d["exit"] == 1))
    if not checks:
        print(j["id"], "recorded as missed - skipped")
        continue
    out = subprocess.run(["/verif/tools/seedrun.sh", m.replace("meta.json", "patch.diff")] + checks, stdout=subprocess.PIPE, stderr=subprocess.STDOUT).stdout.decode()
    fired = [l for l in out.splitlines() if l.startswith("== ") and l.endswith("exit=1")]
    status = "ok" if fired else "REGRESSION"
    if not fired:
        bad += 1
    print(j["id"], status, checks, "->", [l.split()[1] for l in fired], flush=True)
print("regressions:", bad)
sys.exit(1 if bad else 0)
