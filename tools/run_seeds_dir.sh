#!/bin/sh
# tools/run_seeds_dir.sh <dir with <PROP>/<k>/patch.diff> : runs all 20 checks on every change found (no confirmation step)
for d in "$1"/C*/[0-9]; do
  [ -f "$d/patch.diff" ] || continue
  echo "#### $d"
  /verif/tools/seedrun.sh "$d/patch.diff"
done
