#!/bin/sh
# tools/pcheck.sh <patch.diff> <PROP>... : run the named checks on a private worktree of /repo with the patch applied
patch=$(readlink -f "$1"); shift
tag=$(echo "$patch" | tr '/.' '__')
wt=/var/tmp/wtc$tag; ev=/var/tmp/evc$tag
git -C /repo worktree remove --force $wt >/dev/null 2>&1
ok=0; for try in 1 2 3 4 5 6 7 8; do git -C /repo worktree add --detach $wt HEAD >/dev/null 2>&1 && { ok=1; break; }; sleep 1; git -C /repo worktree prune >/dev/null 2>&1; done
[ $ok = 1 ] || { echo "WORKTREE FAILED"; exit 2; }
git -C $wt apply "$patch" || { echo "PATCH DOES NOT APPLY"; git -C /repo worktree remove --force $wt; exit 2; }
mkdir -p $ev
for p in "$@"; do
  o=$(CJET_REPO=$wt CJET_EVIDENCE_DIR=$ev timeout 900 /verif/check $p 2>&1); rc=$?
  if [ $rc -ne 0 ]; then echo "== $p exit=$rc"; echo "$o" | grep -E "^  rule|ANALYSIS-BROKEN|Error|File" | cut -c1-260; else echo "== $p silent"; fi
done
git -C /repo worktree remove --force $wt >/dev/null 2>&1; rm -rf $ev
